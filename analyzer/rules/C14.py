"""C14 — Schema validation agrees with the specification (DESIGN.md C14).

Verdict equivalence with the reference implementation is NOT decidable by this family.  Decided:
C14.REGISTRY - every type-system validation rule of the October 2021 spec (section 3) has at least
one diagnostic of the matching kind constructed in a function reachable from the schema build /
validation entries and, where the rule concerns a particular kind of definition, through the
validator of that kind.  A rule with no reachable handler accepts every schema that breaks only
that rule.  This is the same necessary condition as C17.REGISTRY, for the type system."""
import re

from ..core import AnchorError
from .C17 import construction_sites

CRATES = ["apollo_compiler"]
LEVEL = "other"
EXPLANATION = __doc__

V = "apollo_compiler::validation::"
B = "apollo_compiler::schema::from_ast::SchemaBuilder::"
REGISTRY = [
    ("3.3 Schema: a query root operation type must be provided", ["QueryRootOperationType"], V + "schema::validate_schema_definition"),
    ("3.3 Schema: root operation types must be object types", ["RootOperationObjectType"], None),
    ("3.3 Schema: root operation types must be distinct", ["DuplicateRootOperationType"], None),
    ("3.3 Schema: each root operation kind at most once", ["DuplicateRootOperation"], None),
    ("3.3 Schema: at most one schema definition", ["SchemaDefinitionCollision"], None),
    ("3.4 Types: type names are unique", ["TypeDefinitionCollision"], None),
    ("3.4 Types: built-in scalars are not redefined", ["BuiltInScalarTypeRedefinition"], None),
    ("3.4 Types / 3.13: names do not begin with `__`", ["ReservedName"], None),
    ("3.4.3 Extensions: an extension matches the kind of its definition", ["TypeExtensionKindMismatch"], None),
    ("3.4.3 Extensions: an extension has a definition to extend", ["OrphanTypeExtension", "OrphanSchemaExtension"], None),
    ("3.6 Objects: one or more fields", ["EmptyFieldSet"], V + "object::validate_object_type_definition"),
    ("3.6 Objects: field names unique", ["ObjectFieldNameCollision"], None),
    ("3.6 Objects: field types are output types", ["OutputType"], V + "field::validate_field_definitions"),
    ("3.6 Objects: field / argument types are defined", ["UndefinedDefinition"], V + "field::validate_field_definitions"),
    ("3.6.1 Arguments: names unique", ["UniqueInputValue"], V + "input_object::validate_argument_definitions"),
    ("3.6.1 Arguments: types are input types", ["InputType"], V + "input_object::validate_input_value_definitions"),
    ("3.6 Objects: an interface is implemented at most once", ["DuplicateImplementsInterfaceInObject"], None),
    ("3.6 Objects: implemented interfaces are defined interfaces", ["UndefinedDefinition"], V + "interface::validate_implements_interfaces"),
    ("3.6 Objects: transitively implemented interfaces are declared", ["TransitiveImplementedInterfaces"], V + "interface::validate_implements_interfaces"),
    ("3.6 IsValidImplementation: every interface field is present", ["MissingInterfaceField"], V + "object::validate_object_type_definition"),
    ("3.6 IsValidImplementation: field types are covariant", ["InvalidImplementationFieldType"], None),
    ("3.6 IsValidImplementation: interface arguments are present", ["MissingInterfaceFieldArgument"], None),
    ("3.6 IsValidImplementation: argument types are invariant", ["InvalidImplementationFieldArgumentType"], None),
    ("3.6 IsValidImplementation: additional arguments are not required", ["ExtraRequiredImplementationFieldArgument"], None),
    ("3.7 Interfaces: one or more fields", ["EmptyFieldSet"], V + "interface::validate_interface_definition"),
    ("3.7 Interfaces: field names unique", ["InterfaceFieldNameCollision"], None),
    ("3.7 Interfaces: an interface is implemented at most once", ["DuplicateImplementsInterfaceInInterface"], None),
    ("3.7 Interfaces: no interface implements itself", ["RecursiveInterfaceDefinition"], V + "interface::validate_interface_definition"),
    ("3.7 Interfaces: every implemented interface's field is present", ["MissingInterfaceField"], V + "interface::validate_interface_definition"),
    ("3.8 Unions: one or more members", ["EmptyMemberSet"], V + "union_::validate_union_definition"),
    ("3.8 Unions: members unique", ["UnionMemberNameCollision"], None),
    ("3.8 Unions: members are object types", ["UnionMemberObjectType"], V + "union_::validate_union_definition"),
    ("3.8 Unions: members are defined", ["UndefinedDefinition"], V + "union_::validate_union_definition"),
    ("3.9 Enums: one or more values", ["EmptyValueSet"], V + "enum_::validate_enum_definition"),
    ("3.9 Enums: values unique", ["EnumValueNameCollision"], None),
    ("3.10 Input objects: one or more fields", ["EmptyInputValueSet"], V + "input_object::validate_input_object_definition"),
    ("3.10 Input objects: field names unique", ["InputFieldNameCollision"], None),
    ("3.10 Input objects: field types are input types", ["InputType"], V + "input_object::validate_input_object_definition"),
    ("3.10 Input objects: no chain of non-null references back to itself", ["RecursiveInputObjectDefinition"], V + "input_object::validate_input_object_definition"),
    ("3.13 Directives: definitions unique", ["DirectiveDefinitionCollision"], None),
    ("3.13 Directives: a definition does not reference itself", ["RecursiveDirectiveDefinition"], V + "directive::validate_directive_definition"),
    ("3.13 Directives: applied directives are defined", ["UndefinedDirective"], V + "directive::validate_directives"),
    ("3.13 Directives: applied in a declared location", ["UnsupportedLocation"], V + "directive::validate_directives"),
    ("3.13 Directives: non-repeatable directives are applied once", ["UniqueDirective"], V + "directive::validate_directives"),
    ("3.13 Directives: arguments are defined", ["UndefinedArgument"], V + "directive::validate_directives"),
    ("3.13 Directives: required arguments are given", ["RequiredArgument"], V + "directive::validate_directives"),
    ("3.6.1 / 3.10 default values are of the declared type", ["UnsupportedValueType"], V + "input_object::validate_input_value_definitions"),
]


def run(prog, rep):
    rep.floor("C14.REGISTRY", 40)
    entries = [prog.fn(r"^apollo_compiler::schema::validation::validate_schema$"),
               prog.fn(r"^%sbuild_inner$" % re.escape(B)),
               prog.fn(r"^%sadd_ast_document_not_adding_sources$" % re.escape(B))]
    reach = prog.reachable(entries)
    sites = construction_sites(prog)
    if len(sites) < 60:
        raise AnchorError("only %d diagnostic variants have construction sites" % len(sites))
    cache = {}
    for rule, variants, via in REGISTRY:
        fns = set()
        for v in variants:
            fns |= sites.get(v, set())
        live = [u for u in fns if u in reach]
        if via is not None:
            if via not in cache:
                vf = prog.fns_matching("^" + re.escape(via) + "$")
                if len(vf) != 1:
                    raise AnchorError("validator %s not found" % via)
                if vf[0].uid not in reach:
                    rep.finding("C14.REGISTRY", via, "validator-unreachable", "%s is not reachable from schema validation" % via, vf[0].loc())
                cache[via] = prog.reachable(vf)
            live = [u for u in live if u in cache[via]]
        rep.obligation(bool(live))
        if live:
            rep.instance("C14.REGISTRY", "%s: %s constructed in %s" % (rule, "/".join(variants), ", ".join(sorted(set(prog.fns[u].name.split("::")[-1] for u in live)))[:80]))
        else:
            where = ("in a function reachable through %s" % via.split("::")[-1]) if via else "in a function reachable from schema build / validation"
            other = sorted(set(prog.fns[u].name.split("::")[-1] for u in fns))
            rep.finding("C14.REGISTRY", "spec:" + rule.split(":")[0], "no-handler:" + "/".join(variants) + ("@" + via.split("::")[-1] if via else ""),
                        "no diagnostic %s is constructed %s%s: a schema that breaks only `%s` validates" % (
                            "/".join(variants), where, (" (only constructed in %s)" % ", ".join(other)) if other else "", rule), None)
    rep.note("presence of a handler per rule is a necessary condition only; agreement of verdicts with graphql-js is not decided")
