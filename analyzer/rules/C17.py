"""C17 — Executable validation agrees with the specification (DESIGN.md C17).

Verdict equivalence with the reference implementation is NOT decidable by this family.  Decided:
C17.REGISTRY - every operation-validation rule of the October 2021 spec (section 5) has at least
one diagnostic of the matching kind constructed in a function reachable from the executable
validation entries (and, where the rule is about a particular construct, reachable through the
function that validates that construct): a rule with no handler accepts every document that only
breaks that rule.  C17.SCOPE - the memo of already-validated fragments is scoped to one operation's
variables (shared with C18.MEMO): fragments are re-validated under each operation that reaches
them, otherwise the per-operation variable rules (5.8.3, 5.8.5) are applied with the wrong
variables."""
import re

from ..core import AnchorError, Undecided

CRATES = ["apollo_compiler"]
LEVEL = "other"
EXPLANATION = __doc__

V = "apollo_compiler::validation::"
# rule -> (variants, function the site must be reachable from in addition to the entries | None)
REGISTRY = [
    ("5.1.1 Executable Definitions", ["TypeSystemDefinition"], None),
    ("5.2.1.1 Operation Name Uniqueness", ["OperationNameCollision"], None),
    ("5.2.2.1 Lone Anonymous Operation", ["AmbiguousAnonymousOperation"], None),
    ("5.2.3.1 Subscription Single Root Field", ["SubscriptionUsesMultipleFields"], None),
    ("5.3.1 Field Selections", ["UndefinedField"], None),
    ("5.3.2 Field Selection Merging (response shape)", ["ConflictingFieldType"], None),
    ("5.3.2 Field Selection Merging (same name)", ["ConflictingFieldName"], None),
    ("5.3.2 Field Selection Merging (same arguments)", ["ConflictingFieldArgument"], None),
    ("5.3.3 Leaf Field Selections (sub-selection on leaf)", ["SubselectionOnScalarType", "SubselectionOnEnumType"], None),
    ("5.3.3 Leaf Field Selections (missing sub-selection)", ["MissingSubselection"], None),
    ("5.4.1 Argument Names", ["UndefinedArgument"], V + "field::validate_field"),
    ("5.4.2 Argument Uniqueness", ["UniqueArgument"], V + "field::validate_field"),
    ("5.4.2.1 Required Arguments", ["RequiredArgument"], V + "field::validate_field"),
    ("5.5.1.1 Fragment Name Uniqueness", ["FragmentNameCollision"], None),
    ("5.5.1.2 Fragment Spread Type Existence", ["UndefinedTypeInNamedFragmentTypeCondition", "UndefinedTypeInInlineFragmentTypeCondition"], None),
    ("5.5.1.3 Fragments On Composite Types", ["InvalidFragmentTarget"], None),
    ("5.5.1.4 Fragments Must Be Used", ["UnusedFragment"], None),
    ("5.5.2.1 Fragment Spread Target Defined", ["UndefinedFragment"], None),
    ("5.5.2.2 Fragment Spreads Must Not Form Cycles", ["RecursiveFragmentDefinition"], None),
    ("5.5.2.3 Fragment Spread Is Possible", ["InvalidFragmentSpread"], None),
    ("5.6.1 Values Of Correct Type", ["UnsupportedValueType"], V + "value::value_of_correct_type"),
    ("5.6.1 Values Of Correct Type (enum values)", ["UndefinedEnumValue"], V + "value::value_of_correct_type"),
    ("5.6.1 Values Of Correct Type (Int/Float range)", ["IntCoercionError", "FloatCoercionError"], V + "value::value_of_correct_type"),
    ("5.6.2 Input Object Field Names", ["UndefinedInputValue"], V + "value::value_of_correct_type"),
    ("5.6.3 Input Object Field Uniqueness", ["UniqueInputValue"], V + "value::value_of_correct_type"),
    ("5.6.4 Input Object Required Fields", ["RequiredField"], V + "value::value_of_correct_type"),
    ("5.7.1 Directives Are Defined", ["UndefinedDirective"], V + "directive::validate_directives"),
    ("5.7.2 Directives Are In Valid Locations", ["UnsupportedLocation"], V + "directive::validate_directives"),
    ("5.7.3 Directives Are Unique Per Location", ["UniqueDirective"], V + "directive::validate_directives"),
    ("5.8.1 Variable Uniqueness", ["UniqueVariable"], None),
    ("5.8.2 Variables Are Input Types", ["VariableInputType"], None),
    ("5.8.3 All Variable Uses Defined", ["UndefinedVariable"], None),
    ("5.8.4 All Variables Used", ["UnusedVariable"], None),
    ("5.8.5 All Variable Usages Are Allowed", ["DisallowedVariableUsage"], None),
]


def construction_sites(prog):
    """variant -> [fn] for every aggregate of DiagnosticData / BuildError / Details outside the
    derived Clone/Debug impls"""
    out = {}
    for fn in prog.fns.values():
        if fn.crate != "apollo_compiler":
            continue
        if re.search(r" as std::(clone::Clone|fmt::Debug|cmp::PartialEq)>::", fn.name):
            continue
        for b in fn.live_blocks():
            for s in fn.stmts(b):
                if s[0] == "=" and s[2][0] == "agg" and isinstance(s[2][1], list) and s[2][1][0] == "adt" and re.search(r"(diagnostics::DiagnosticData|executable::BuildError|schema::BuildError|validation::Details)$", s[2][1][1]):
                    out.setdefault(s[2][1][2], set()).add(fn.uid)
    return out


def rule_registry(prog, rep):
    rep.floor("C17.REGISTRY", 30)
    entries = [prog.fn(r"^apollo_compiler::executable::validation::validate_executable_document$"),
               prog.fn(r"^apollo_compiler::executable::from_ast::document_from_ast$"),
               prog.fn(r"^apollo_compiler::executable::from_ast::ExecutableDocumentBuilder::<'schema, 'errors>::add_ast_document_not_adding_sources$")]
    reach = prog.reachable(entries)
    sites = construction_sites(prog)
    if len(sites) < 60:
        raise AnchorError("only %d diagnostic variants have construction sites: the extractor no longer sees the diagnostic enums" % len(sites))
    cache = {}
    for rule, variants, via in REGISTRY:
        fns = set()
        for v in variants:
            fns |= sites.get(v, set())
        live = [u for u in fns if u in reach]
        if via is not None:
            if via not in cache:
                vf = prog.fns_matching("^" + re.escape(via) + "$")
                if len(vf) != 1:
                    raise AnchorError("validator %s not found" % via)
                cache[via] = prog.reachable(vf)
            live = [u for u in live if u in cache[via]]
        rep.obligation(bool(live))
        if live:
            rep.instance("C17.REGISTRY", "%s: %s constructed in %s" % (rule, "/".join(variants), ", ".join(sorted(prog.fns[u].name.split("::")[-1] for u in live)[:3])))
        else:
            where = ("in a function reachable from %s" % via.split("::")[-1]) if via else "in a function reachable from executable validation"
            other = sorted(prog.fns[u].name.split("::")[-1] for u in fns)
            rep.finding("C17.REGISTRY", "spec:" + rule.split(" ")[0], "no-handler:" + "/".join(variants),
                        "no diagnostic %s is constructed %s%s: a document that breaks only `%s` validates" % (
                            "/".join(variants), where, (" (it is only constructed in %s)" % ", ".join(other)) if other else "", rule), None)


def rule_scope(prog, rep):
    rep.floor("C17.SCOPE", 1)
    f = prog.fn(r"^%sfragment::validate_fragment_spread$" % V)
    ins = [c for c in f.live_calls() if re.search(r"HashSet::<T, S(, A)?>::insert$", c.name)]
    ok = len(ins) == 1
    recv = f.sym(ins[0].args[0]) if ok else "?"
    ctx_arg = None
    for i in range(1, f.argc + 1):
        if "OperationValidationContext" in f.local_ty(i):
            ctx_arg = i
    ok = ok and ctx_arg is not None and recv.lstrip("&") == "arg%d.validated_fragments" % ctx_arg
    if ok:
        # the guarded recursion into the fragment definition passes the same context
        vd = [c for c in f.live_calls() if c.name.endswith("fragment::validate_fragment_definition")]
        ok = len(vd) == 1 and f.sym(vd[0].args[-1]).lstrip("&") == "arg%d" % ctx_arg
    rep.obligation(ok)
    if ok:
        rep.instance("C17.SCOPE", "validate_fragment_spread: the `already validated` memo is the per-operation context's validated_fragments; the fragment body is validated with that same context (variables)")
    else:
        rep.finding("C17.SCOPE", f.name, "memo-scope",
                    "the memo that skips already-validated fragments is `%s`, not the per-operation context's validated_fragments: a fragment shared by two operations is checked against the first operation's variables only" % recv, f.loc())
    from .C18 import rule_memo
    rule_memo(prog, rep)


def run(prog, rep):
    rule_registry(prog, rep)
    rule_scope(prog, rep)
    rep.note("the registry proves presence of a handler per spec rule, not that the handler's condition is the spec's; verdict agreement with graphql-js is not decided")
