"""C17 — Executable validation agrees with the specification (DESIGN.md C17).

Verdict equivalence with the reference implementation is NOT decidable by this family.  Decided:
C17.REGISTRY - every operation-validation rule of the October 2021 spec (section 5) has at least
one diagnostic of the matching kind constructed in a function reachable from the executable
validation entries (and, where the rule is about a particular construct, reachable through the
function that validates that construct): a rule with no handler accepts every document that only
breaks that rule.  C17.SCOPE - the memo of already-validated fragments is scoped to one operation's
variables (shared with C18.MEMO): fragments are re-validated under each operation that reaches
them, otherwise the per-operation variable rules (5.8.3, 5.8.5) are applied with the wrong
variables."""
import re

from ..core import AnchorError, Undecided

CRATES = ["apollo_compiler"]
LEVEL = "other"
EXPLANATION = __doc__

V = "apollo_compiler::validation::"
# rule -> (variants, function the site must be reachable from in addition to the entries | None)
REGISTRY = [
    ("5.1.1 Executable Definitions", ["TypeSystemDefinition"], None),
    ("5.2.1.1 Operation Name Uniqueness", ["OperationNameCollision"], None),
    ("5.2.2.1 Lone Anonymous Operation", ["AmbiguousAnonymousOperation"], None),
    ("5.2.3.1 Subscription Single Root Field", ["SubscriptionUsesMultipleFields"], None),
    ("5.3.1 Field Selections", ["UndefinedField"], None),
    ("5.3.2 Field Selection Merging (response shape)", ["ConflictingFieldType"], None),
    ("5.3.2 Field Selection Merging (same name)", ["ConflictingFieldName"], None),
    ("5.3.2 Field Selection Merging (same arguments)", ["ConflictingFieldArgument"], None),
    ("5.3.3 Leaf Field Selections (sub-selection on leaf)", ["SubselectionOnScalarType", "SubselectionOnEnumType"], None),
    ("5.3.3 Leaf Field Selections (missing sub-selection)", ["MissingSubselection"], None),
    ("5.4.1 Argument Names", ["UndefinedArgument"], V + "field::validate_field"),
    ("5.4.2 Argument Uniqueness", ["UniqueArgument"], V + "field::validate_field"),
    ("5.4.2.1 Required Arguments", ["RequiredArgument"], V + "field::validate_field"),
    ("5.5.1.1 Fragment Name Uniqueness", ["FragmentNameCollision"], None),
    ("5.5.1.2 Fragment Spread Type Existence", ["UndefinedTypeInNamedFragmentTypeCondition", "UndefinedTypeInInlineFragmentTypeCondition"], None),
    ("5.5.1.3 Fragments On Composite Types", ["InvalidFragmentTarget"], None),
    ("5.5.1.4 Fragments Must Be Used", ["UnusedFragment"], None),
    ("5.5.2.1 Fragment Spread Target Defined", ["UndefinedFragment"], None),
    ("5.5.2.2 Fragment Spreads Must Not Form Cycles", ["RecursiveFragmentDefinition"], None),
    ("5.5.2.3 Fragment Spread Is Possible", ["InvalidFragmentSpread"], None),
    ("5.6.1 Values Of Correct Type", ["UnsupportedValueType"], V + "value::value_of_correct_type"),
    ("5.6.1 Values Of Correct Type (enum values)", ["UndefinedEnumValue"], V + "value::value_of_correct_type"),
    ("5.6.1 Values Of Correct Type (Int/Float range)", ["IntCoercionError", "FloatCoercionError"], V + "value::value_of_correct_type"),
    ("5.6.2 Input Object Field Names", ["UndefinedInputValue"], V + "value::value_of_correct_type"),
    ("5.6.3 Input Object Field Uniqueness", ["UniqueInputValue"], V + "value::value_of_correct_type"),
    ("5.6.4 Input Object Required Fields", ["RequiredField"], V + "value::value_of_correct_type"),
    ("5.7.1 Directives Are Defined", ["UndefinedDirective"], V + "directive::validate_directives"),
    ("5.7.2 Directives Are In Valid Locations", ["UnsupportedLocation"], V + "directive::validate_directives"),
    ("5.7.3 Directives Are Unique Per Location", ["UniqueDirective"], V + "directive::validate_directives"),
    ("5.8.1 Variable Uniqueness", ["UniqueVariable"], None),
    ("5.8.2 Variables Are Input Types", ["VariableInputType"], None),
    ("5.8.3 All Variable Uses Defined", ["UndefinedVariable"], None),
    ("5.8.4 All Variables Used", ["UnusedVariable"], None),
    ("5.8.5 All Variable Usages Are Allowed", ["DisallowedVariableUsage"], None),
]


def construction_sites(prog):
    """variant -> [fn] for every aggregate of DiagnosticData / BuildError / Details outside the
    derived Clone/Debug impls"""
    out = {}
    for fn in prog.fns.values():
        if fn.crate != "apollo_compiler":
            continue
        if re.search(r" as std::(clone::Clone|fmt::Debug|cmp::PartialEq)>::", fn.name):
            continue
        for b in fn.live_blocks():
            for s in fn.stmts(b):
                if s[0] == "=" and s[2][0] == "agg" and isinstance(s[2][1], list) and s[2][1][0] == "adt" and re.search(r"(diagnostics::DiagnosticData|executable::BuildError|schema::BuildError|validation::Details)$", s[2][1][1]):
                    out.setdefault(s[2][1][2], set()).add(fn.uid)
    return out


def rule_registry(prog, rep):
    rep.floor("C17.REGISTRY", 30)
    entries = [prog.fn(r"^apollo_compiler::executable::validation::validate_executable_document$"),
               prog.fn(r"^apollo_compiler::executable::from_ast::document_from_ast$"),
               prog.fn(r"^apollo_compiler::executable::from_ast::ExecutableDocumentBuilder::<'schema, 'errors>::add_ast_document_not_adding_sources$")]
    reach = prog.reachable(entries)
    sites = construction_sites(prog)
    if len(sites) < 60:
        raise AnchorError("only %d diagnostic variants have construction sites: the extractor no longer sees the diagnostic enums" % len(sites))
    cache = {}
    for rule, variants, via in REGISTRY:
        fns = set()
        for v in variants:
            fns |= sites.get(v, set())
        live = [u for u in fns if u in reach]
        if via is not None:
            if via not in cache:
                vf = prog.fns_matching("^" + re.escape(via) + "$")
                if len(vf) != 1:
                    raise AnchorError("validator %s not found" % via)
                cache[via] = prog.reachable(vf)
            live = [u for u in live if u in cache[via]]
        rep.obligation(bool(live))
        if live:
            rep.instance("C17.REGISTRY", "%s: %s constructed in %s" % (rule, "/".join(variants), ", ".join(sorted(prog.fns[u].name.split("::")[-1] for u in live)[:3])))
        else:
            where = ("in a function reachable from %s" % via.split("::")[-1]) if via else "in a function reachable from executable validation"
            other = sorted(prog.fns[u].name.split("::")[-1] for u in fns)
            rep.finding("C17.REGISTRY", "spec:" + rule.split(" ")[0], "no-handler:" + "/".join(variants),
                        "no diagnostic %s is constructed %s%s: a document that breaks only `%s` validates" % (
                            "/".join(variants), where, (" (it is only constructed in %s)" % ", ".join(other)) if other else "", rule), None)


def rule_scope(prog, rep):
    rep.floor("C17.SCOPE", 1)
    f = prog.fn(r"^%sfragment::validate_fragment_spread$" % V)
    ins = [c for c in f.live_calls() if re.search(r"HashSet::<T, S(, A)?>::insert$", c.name)]
    ok = len(ins) == 1
    recv = f.sym(ins[0].args[0]) if ok else "?"
    ctx_arg = None
    for i in range(1, f.argc + 1):
        if "OperationValidationContext" in f.local_ty(i):
            ctx_arg = i
    ok = ok and ctx_arg is not None and recv.lstrip("&") == "arg%d.validated_fragments" % ctx_arg
    if ok:
        # the guarded recursion into the fragment definition passes the same context
        vd = [c for c in f.live_calls() if c.name.endswith("fragment::validate_fragment_definition")]
        ok = len(vd) == 1 and f.sym(vd[0].args[-1]).lstrip("&") == "arg%d" % ctx_arg
    rep.obligation(ok)
    if ok:
        rep.instance("C17.SCOPE", "validate_fragment_spread: the `already validated` memo is the per-operation context's validated_fragments; the fragment body is validated with that same context (variables)")
    else:
        rep.finding("C17.SCOPE", f.name, "memo-scope",
                    "the memo that skips already-validated fragments is `%s`, not the per-operation context's validated_fragments: a fragment shared by two operations is checked against the first operation's variables only" % recv, f.loc())
    from .C18 import rule_memo
    rule_memo(prog, rep)


def rule_shape(prog, rep):
    """C17.SHAPE: SameResponseShape steps 3-4 in same_output_type_shape, as a table over the kinds
    of the two field types (Named, NonNullNamed, List, NonNullList) for one round of unwrapping:
    two lists of the same nullability are unwrapped together (the round returns nothing); a list
    against a non-list, or a nullable list against a non-null list, is a conflict; at the bottom a
    nullable name against a non-null name is a conflict.  Looked up among the CFG paths of one loop
    iteration, so `match (a, b)` and `is_list()/item_type()` loops are read the same way."""
    rep.floor("C17.SHAPE", 1)
    import itertools
    from ..flow import _strip
    from ..tables import enum_paths, return_value_on_path
    from ..core import Undecided
    f = prog.fn(r"^apollo_compiler::validation::selection::same_output_type_shape$")
    preds = f.preds()
    live = f.live_blocks()
    heads = sorted(set(h for h in live for p in preds[h] if p in live and f.dominates(h, p)))
    if len(heads) != 1:
        raise Undecided("same_output_type_shape: expected one loop that unwraps the two types (found %d)" % len(heads))
    H = heads[0]
    KINDS = ("Named", "NonNullNamed", "List", "NonNullList")
    GROUPS = {"is_named": {"Named", "NonNullNamed"}, "is_list": {"List", "NonNullList"}, "is_non_null": {"NonNullNamed", "NonNullList"}}
    rows = []
    for atoms, end, path in enum_paths(f, start=H, stops={H}, inner_loops="cut", max_paths=20000):
        preds_ = []
        stale = set()
        for a in _strip(atoms):
            who = None
            if a[0] in ("variant", "variant_in") and a[1] in ("var:type_a", "var:type_b"):
                names = (a[2],) if a[0] == "variant" else tuple(a[2])
                if all(n in KINDS for n in names):
                    preds_.append((a[1][-1], lambda v, ns=names: v in ns))
            elif a[0] == "callbool" and a[2] and a[2][0] in ("var:type_a", "var:type_b") and a[1].split("::")[-1] in GROUPS:
                g = GROUPS[a[1].split("::")[-1]]
                preds_.append((a[2][0][-1], lambda v, g=g, val=a[3]: (v in g) == val))
        leaf = "Err" if (return_value_on_path(f, path) or "").startswith("Result::Err{") else "other"
        rows.append((preds_, leaf))
    bad = []
    for ka, kb in itertools.product(KINDS, KINDS):
        env = {"a": ka, "b": kb}
        got = set(leaf for ps, leaf in rows if all(p(env[w]) for w, p in ps))
        la, lb = ka in GROUPS["is_list"], kb in GROUPS["is_list"]
        if la and lb and ka == kb:
            want = "descend"
            ok = not got
        elif la or lb:
            want = "conflict"
            ok = got == {"Err"}
        elif ka != kb:
            want = "conflict"
            ok = got == {"Err"}
        else:
            want = "compare the named types"
            ok = "other" in got
        rep.obligation(ok)
        if not ok:
            bad.append((ka, kb, sorted(got) or ["keeps unwrapping"], want))
    if not bad:
        rep.instance("C17.SHAPE", "same_output_type_shape: 16 kind pairs - same-nullability lists unwrap together, list vs non-list and nullable vs non-null (at any level) conflict")
    else:
        ka, kb, got, want = bad[0]
        rep.finding("C17.SHAPE", f.name, "wrappers",
                    "SameResponseShape: for field types of kind %s and %s the code %s, the rule is: %s (%d of 16 kind pairs differ) - e.g. `[Int]!` and `[Int]` under the same response name must conflict" % (ka, kb, "/".join(got), want, len(bad)), f.loc())


def rule_nested(prog, rep):
    """C17.NESTED: All Variable Uses Defined holds at any depth of a value.  In
    value_of_correct_type every way of accepting a composite literal (a List or an Object)
    visits the nested values - by recursion or by a function that reports UndefinedVariable -
    or reports the literal itself; an arm that accepts the composite as it stands (`any value is
    valid for a custom scalar`) lets `{k: $undefined}` through."""
    from ..flow import loop_body, loop_headers, must_pass
    rep.floor("C17.NESTED", 2)
    f0 = prog.fn(r"^apollo_compiler::validation::value::value_of_correct_type$")
    sites = construction_sites(prog)
    direct = set(sites.get("UndefinedVariable", set()))
    # private helpers an arm was extracted into are folded back in (the visitors stay calls)
    keep = "|".join(re.escape(prog.fns[u].name) for u in sorted(direct | {f0.uid}))
    f = prog.inline(f0, keep="^(%s|.*::unsupported_type)$" % keep)
    visitors = {f.uid}
    for u in direct:
        g = prog.fns[u]
        if any("ast::Value" in (t or "") for t in (g.d.get("sig_in") or [])):
            visitors.add(u)

    def closure_visits(c):
        """a combinator call (for_each, ...) whose closure argument visits the nested values"""
        for a in c.args:
            m = re.search(r"closure:(.*?\{closure#\d+\})", f.sym(a))
            if not m:
                continue
            for h in prog.fns.values():
                if h.kind == "closure" and h.name == m.group(1) and any(k.uid in visitors for k in h.live_calls()):
                    return True
        return False

    through = set()
    for c in f.live_calls():
        if c.uid in visitors or closure_visits(c):
            through.add(c.block)
        elif re.search(r"::unsupported_type$|DiagnosticList::push$", c.name):
            through.add(c.block)
    hs = loop_headers(f)
    for h in hs:
        if loop_body(f, h, hs) & through:
            through.add(h)
    sw = None
    for b in sorted(f.live_blocks()):
        info = f.switch_info(b)
        if info and info.get("kind") == "enum" and info["adt"].endswith("ast::Value") and re.search(r"arg4", f.sym(["c", info["place"]])):
            sw = info
            break
    if sw is None:
        raise Undecided("value_of_correct_type: the switch on the kind of the value was not found")
    for v in ("List", "Object"):
        t = sw["edges"].get(v, sw["otherwise"] if v in sw["rest"] else None)
        if t is None:
            raise Undecided("value_of_correct_type: no arm for Value::%s" % v)
        passed, leak = must_pass(f, [t], f.return_blocks(), through)
        rep.obligation(passed)
        if passed:
            rep.instance("C17.NESTED", "Value::%s: every accepting path visits the nested values (or reports the literal)" % v)
        else:
            rep.finding("C17.NESTED", f.name, "accepts-unvisited:" + v,
                        "value_of_correct_type has a path that accepts a Value::%s without visiting the values nested in it: a variable used there (`{k: $undefined}` given to a custom scalar) is never checked against the operation's variable definitions (spec 5.8.3 All Variable Uses Defined)" % v, f.loc())


def rule_varpos(prog, rep):
    """C17.VARPOS: All Variable Usages Are Allowed (spec 5.8.5) holds at every position a variable
    can stand in - an argument, an input object field, a list item.  Arguments are checked by
    validate_variable_usage in the callers; nested positions are reached only through the
    recursion of value_of_correct_type, so its Variable arm must decide by the spec's
    compatibility (is_variable_usage_allowed / is_assignable_to), not by comparing the innermost
    named types (which accepts `In` where `In!` is expected and `[Int]` where `Int` is)."""
    from ..flow import must_pass
    rep.floor("C17.VARPOS", 1)
    f = prog.inline(prog.fn(r"^apollo_compiler::validation::value::value_of_correct_type$"),
                    keep=r"::(value_of_correct_type|unsupported_type|is_assignable_to|is_variable_usage_allowed|validate_variable_usage)$")
    sw = None
    for b in sorted(f.live_blocks()):
        info = f.switch_info(b)
        if info and info.get("kind") == "enum" and info["adt"].endswith("ast::Value") and re.search(r"arg4", f.sym(["c", info["place"]])):
            sw = info
            break
    if sw is None:
        raise Undecided("value_of_correct_type: the switch on the kind of the value was not found")
    t = sw["edges"].get("Variable")
    if t is None:
        raise Undecided("value_of_correct_type: no arm for Value::Variable")
    through = set()
    for c in f.live_calls():
        if re.search(r"::(is_assignable_to|is_variable_usage_allowed|validate_variable_usage)$|::unsupported_type$|DiagnosticList::push$", c.name):
            through.add(c.block)
    passed, leak = must_pass(f, [t], f.return_blocks(), through)
    rep.obligation(passed)
    if passed:
        rep.instance("C17.VARPOS", "the Variable arm of value_of_correct_type decides by type compatibility (or reports) on every path")
    else:
        weak = [c for c in f.live_calls() if c.name.endswith("inner_named_type") and c.block in f.reachable_blocks([t])]
        rep.finding("C17.VARPOS", f.name, "named-type-only",
                    "a variable in a nested position (input object field, list item) is accepted by the Variable arm of value_of_correct_type after comparing %s: list depth and nullability of the position are not checked (IsVariableUsageAllowed is applied to arguments only)" % ("the innermost named types only" if weak else "nothing"), f.loc())


def rule_loneanon(prog, rep):
    """C17.LONEANON: Lone Anonymous Operation (spec 5.2.2.1).  An anonymous operation is stored in
    the document only when it is the only operation so far - no earlier anonymous operation and
    no named operation - and a named operation that meets a stored anonymous one reports it;
    every other combination is reported as AmbiguousAnonymousOperation by the builder."""
    from ..flow import facts_at
    rep.floor("C17.LONEANON", 2)
    f0 = prog.fn(r"^apollo_compiler::executable::from_ast::ExecutableDocumentBuilder::<'schema, 'errors>::add_ast_document_not_adding_sources$")
    f = prog.inline(f0, keep=r"::(from_ast|push|entry|is_empty)$")
    writes = []
    for b in sorted(f.live_blocks()):
        for st in f.stmts(b):
            if st[0] == "=" and st[1][1] and isinstance(st[1][1][-1], list) and st[1][1][-1][0] == "f" and st[1][1][-1][2] == "anonymous":
                writes.append(b)
    if not writes:
        raise Undecided("add_ast_document_not_adding_sources: the anonymous operation is never stored")
    ok = True
    for b in writes:
        fs = facts_at(f, b)
        none_before = any(x[0] == "variant" and x[1].endswith(".operations.anonymous") and x[2] == "None" and x[3] is True for x in fs)
        no_named = any(x[0] == "callbool" and x[1].endswith("::is_empty") and x[3] is True and x[2] and str(x[2][0]).endswith(".operations.named") for x in fs) or \
            any(x[0] == "callbool" and re.search(r"::len$", x[1]) and x[2] and str(x[2][0]).endswith(".operations.named") for x in fs)
        ok = ok and none_before and no_named
    rep.obligation(ok)
    if ok:
        rep.instance("C17.LONEANON", "an anonymous operation is stored only if no anonymous and no named operation came before it")
    else:
        rep.finding("C17.LONEANON", f0.name, "stored-next-to-others",
                    "an anonymous operation is stored although %s: `query A { a } { a }` builds and validates, which Lone Anonymous Operation forbids" % ("named operations may already exist" if none_before else "another anonymous operation may already exist"), f0.loc())
    # the named side: a named operation that meets a stored anonymous operation reports it
    sites = [c for c in f.live_calls() if c.name.endswith("DiagnosticList::push") and "AmbiguousAnonymousOperation" in f.sym(c.args[2])]
    named_side = False
    for c in sites:
        fs = facts_at(f, c.block)
        if any(x[0] == "variant" and x[1].endswith(".name") and x[2] == "Some" and x[3] is True for x in fs) and \
           any(x[0] == "variant" and x[1].endswith(".operations.anonymous") and x[2] == "Some" and x[3] is True for x in fs):
            named_side = True
    rep.obligation(named_side)
    if named_side:
        rep.instance("C17.LONEANON", "a named operation added next to a stored anonymous operation reports AmbiguousAnonymousOperation")
    else:
        rep.finding("C17.LONEANON", f0.name, "named-after-anonymous", "a named operation added after an anonymous one does not report AmbiguousAnonymousOperation", f0.loc())


def run(prog, rep):
    rule_registry(prog, rep)
    rule_scope(prog, rep)
    rule_shape(prog, rep)
    rule_nested(prog, rep)
    rule_varpos(prog, rep)
    rule_loneanon(prog, rep)
    # verdict conditions decided under sibling properties: IsVariableUsageAllowed / AreTypesCompatible
    # (C29), the type inline fragments are validated against (C18), completeness of the
    # fragment-cycle search (C21)
    from .C18 import rule_valtype
    from .C21 import rule_search
    from .C29 import rule_assign, rule_varuse
    rule_varuse(prog, rep)
    rule_assign(prog, rep)
    rule_valtype(prog, rep)
    rule_search(prog, rep)
    rep.note("the registry proves presence of a handler per spec rule, not that the handler's condition is the spec's; verdict agreement with graphql-js is not decided")
