"""C22 — Outputs are deterministic across processes (DESIGN.md C22)."""
import re

from ..core import AnchorError, op_place

CRATES = ["apollo_parser", "apollo_compiler", "apollo_smith"]
LEVEL = "other"
EXPLANATION = """
C22.HASHITER: every order-observing operation on a std HashMap/HashSet (iter/keys/values/
into_iter/drain/retain/set algebra, for-loops) in the three crates is either in a reviewed table
with its discharge reason or reported.  C22.TAINT: hash values (hash_one / Hasher::finish) reach
only a field that is read solely by Hash/PartialEq impls; pointer addresses are never turned into
integers, compared by order, or formatted.  C22.SOURCES: no clock, environment, thread/process id
or OS randomness is consulted; hasher seeds (ahash::RandomState) only ever feed hash tables and
hash_one.  Decides the absence of the known channels from per-process hash seeds to outputs; does
not compare outputs.
"""

ORDER_OBSERVING = r"(::iter|::iter_mut|::keys|::values|::values_mut|::into_keys|::into_values|::drain|::retain|::extract_if|::union|::intersection|::difference|::symmetric_difference|IntoIterator>::into_iter)$"
HASH_COLL = r"std::collections::Hash(Map|Set)<|std::collections::hash_(map|set)::|hashbrown::Hash(Map|Set)"

# (function regex, method regex) -> reason
REVIEWED = [
    (r"^apollo_compiler::validation::variable::validate_unused_variables$", r"HashMap<K, V, S, A> as std::iter::IntoIterator>::into_iter$",
     "diagnostics are pushed in hash order, but every unused variable has its own source location and DiagnosticList::sort (C21.SORT, stable, by (file, offset)) runs before the list leaves the crate"),
    (r"^apollo_smith::implements_graph::ImplementsGraph::topo_order_parents_first$", r"HashMap::<K, V, S, A>::keys$",
     "fallback taken only when the implements graph is cyclic, which add_edge's callers exclude; apollo-smith's HashMap uses the default SipHash RandomState but this arm is not reachable for generated graphs"),
]


def rule_hashiter(prog, rep):
    rep.floor("C22.HASHITER", 2)
    n_sites = 0
    for fn in sorted(prog.fns.values(), key=lambda f: f.name):
        if fn.impl and (fn.impl.get("trait") or "").endswith("fmt::Debug"):
            continue
        for c in fn.live_calls():
            n = c.name
            st = (c.callee.get("self_ty") or "") + " " + (c.callee.get("impl_self") or "")
            if not re.search(ORDER_OBSERVING, n):
                continue
            if not (re.search(HASH_COLL, n) or re.search(HASH_COLL, st)):
                # generic call (`IntoIterator::into_iter` unresolved): look at the argument type
                a0 = op_place(c.args[0]) if c.args else None
                ty = fn.local_ty(a0[0]) if a0 else ""
                if not re.search(HASH_COLL, ty):
                    continue
            n_sites += 1
            row = [r for r in REVIEWED if re.search(r[0], fn.name) and re.search(r[1], n)]
            if row:
                rep.instance("C22.HASHITER", "%s: %s - reviewed: %s" % (fn.name, n.split("::")[-1], row[0][2]))
                continue
            # auto-discharge: the iterator is consumed by an order-insensitive reducer
            user = None
            dl = c.dest[0]
            for c2 in fn.live_calls():
                if any(op_place(a) is not None and op_place(a)[0] == dl for a in c2.args):
                    user = c2
            if user is not None and re.search(r"Iterator::(all|any|count|sum|product|min|max)$|Iterator>::(all|any|count|sum)$", user.name + " " + user.orig_name):
                rep.instance("C22.HASHITER", "%s: %s feeds order-insensitive %s" % (fn.name, n.split("::")[-1], user.name.split("::")[-1]))
                continue
            rep.finding("C22.HASHITER", fn.name, "hash-order:" + n.split("::")[-1] + ":" + (fn.sym(c.args[0])[:60] if c.args else ""),
                        "iteration over a std HashMap/HashSet (`%s` on `%s`): the order depends on the per-process hash seed and can reach an output or an insertion order" % (n.split("::")[-1], fn.sym(c.args[0]) if c.args else "?"), c.loc())
    rep.extra["hash_iteration_sites"] = n_sites
    # the structures that decide output order are insertion-ordered
    for tpat, fields in ((r"^apollo_compiler::schema::Schema$", ["directive_definitions", "types"]),
                         (r"^apollo_compiler::executable::ExecutableDocument$", ["fragments"]),
                         (r"^apollo_compiler::schema::validation::BuiltInScalars$", ["used_and_undefined"])):
        a = prog.adt(tpat)
        fl = {f[0]: f[1] for v in a["variants"] for f in v["fields"]}
        for f in fields:
            t = fl.get(f, "")
            if re.match(r"^(indexmap::Index(Map|Set)<|std::vec::Vec<)", t):
                rep.instance("C22.HASHITER", "%s.%s is insertion-ordered (%s)" % (a["name"].split("::")[-1], f, t.split("<")[0]))
            else:
                rep.finding("C22.HASHITER", a["name"], "field-order:" + f, "%s.%s has type %s: its iteration order is not the insertion order" % (a["name"], f, t or "<missing>"), None)


def rule_taint(prog, rep):
    rep.floor("C22.TAINT", 3)
    # (1) hash values
    srcs = []
    for fn in prog.fns.values():
        for c in fn.live_calls():
            if re.search(r"(hash_one|Hasher::finish|Hasher>::finish)$", c.name) or re.search(r"hash::BuildHasher::hash_one$|hash::Hasher::finish$", c.orig_name):
                srcs.append((fn, c))
    for fn, c in srcs:
        # where does the result go?  accepted: stored in an aggregate field named `hash`
        dl = c.dest[0]
        ok = False
        for b in fn.live_blocks():
            for s in fn.stmts(b):
                if s[0] == "=" and s[2][0] == "agg" and isinstance(s[2][1], list) and s[2][1][0] == "adt":
                    names = s[2][1][3]
                    for nm, o in zip(names, s[2][2]):
                        pl = op_place(o)
                        if pl is not None and fn.sym(pl).startswith(("RandomState::hash_one(", "BuildHasher::hash_one(", "Hasher::finish(")) and nm == "hash":
                            ok = (s[2][1][1], nm)
        if ok:
            rep.instance("C22.TAINT", "%s: hash value stored in %s.%s" % (fn.name, ok[0].split("::")[-1], ok[1]))
            # readers of that field
            adt = ok[0]
            for f2 in prog.fns.values():
                reads = False
                for b in f2.live_blocks():
                    for s in f2.stmts(b):
                        if s[0] == "=":
                            for pl in _rv_places(s[2]):
                                if _reads_field(f2, pl, adt, "hash"):
                                    reads = True
                if reads:
                    tr = (f2.impl or {}).get("trait") or ""
                    root = prog.fns.get(f2.root) if f2.root else None
                    tr2 = ((root.impl or {}).get("trait") or "") if root else ""
                    if tr.endswith("fmt::Debug"):
                        continue  # derived Debug of a crate-private type: not an output of the library
                    if re.search(r"(hash::Hash|cmp::PartialEq|cmp::Eq)$", tr) or re.search(r"(hash::Hash|cmp::PartialEq|cmp::Eq)$", tr2):
                        rep.instance("C22.TAINT", "%s reads %s.hash (hash/eq impl)" % (f2.name, adt.split("::")[-1]))
                    else:
                        rep.finding("C22.TAINT", f2.name, "hash-read", "the seeded hash value %s.hash is read outside Hash/PartialEq impls: it can influence ordering or output" % adt.split("::")[-1], f2.loc())
        else:
            rep.finding("C22.TAINT", fn.name, "hash-escape", "a seeded hash value (%s) is not confined to a `hash` field read only by Hash/Eq" % c.name.split("::")[-1], c.loc())
    # (2) pointer addresses never become integers / ordered / printed
    n = 0
    for fn in prog.fns.values():
        for b in fn.live_blocks():
            for s in fn.stmts(b):
                if s[0] != "=":
                    continue
                rv = s[2]
                if rv[0] == "cast" and re.search(r"PointerExposeProvenance|PtrToInt", rv[1]):
                    rep.finding("C22.TAINT", fn.name, "ptr-to-int", "a pointer address is converted to an integer", fn.loc(s[3][0]))
                if rv[0] == "bin" and rv[1] in ("Lt", "Le", "Gt", "Ge"):
                    pa = op_place(rv[2])
                    if pa is not None and re.match(r"^\*(const|mut) ", fn.local_ty(pa[0])) and not pa[1]:
                        rep.finding("C22.TAINT", fn.name, "ptr-order", "pointers are compared by address order", fn.loc(s[3][0]))
        for c in fn.live_calls():
            if re.search(r"fmt::Pointer", c.name + c.orig_name) and not c.expn:
                rep.finding("C22.TAINT", fn.name, "ptr-fmt", "a pointer address is formatted", c.loc())
            if re.search(r"::addr$|expose_provenance$|expose_addr$", c.name):
                rep.finding("C22.TAINT", fn.name, "ptr-addr", "a pointer address is taken as an integer", c.loc())
            if re.search(r"::as_ptr$", c.name):
                n += 1
                # allowed consumers: Hash::hash / ptr::hash / NonNull / slice_from_raw_parts / casts
                dl = c.dest[0]
                users = [c2 for c2 in fn.live_calls() if any(op_place(a) is not None and op_place(a)[0] == dl for a in c2.args)]
                for u in users:
                    if not re.search(r"hash::Hash>::hash$|hash::Hash::hash$|ptr::hash$|NonNull|cast|slice_from_raw_parts|from_raw", u.name + " " + u.orig_name):
                        rep.finding("C22.TAINT", fn.name, "ptr-use:" + u.name.split("::")[-1], "the address from as_ptr() flows into `%s`" % u.name, u.loc())
    rep.instance("C22.TAINT", "pointer addresses: %d as_ptr() sites, none converted to integers, ordered or printed" % n)


def _rv_places(rv):
    from .C30 import _places_of_rvalue
    return _places_of_rvalue(rv)


def _reads_field(fn, place, adt, field):
    local, proj = place
    for i, e in enumerate(proj):
        if isinstance(e, list) and e[0] == "f" and e[2] == field:
            # type of the base must mention the ADT
            if adt.split("::")[-1] in fn.local_ty(local):
                return True
    return False


ENTROPY = [
    (r"std::time::(SystemTime|Instant)", "clock"),
    (r"^std::env::", "environment"),
    (r"thread_rng|rand::rng$|OsRng|getrandom", "OS randomness"),
    (r"std::thread::(current|Thread::id)|ThreadId", "thread id"),
    (r"std::process::id$", "process id"),
    (r"std::collections::hash_map::RandomState::new$|std::hash::RandomState::new$", "std RandomState"),
]


def rule_sources(prog, rep):
    rep.floor("C22.SOURCES", 2)
    nseed = 0
    for fn in prog.fns.values():
        for c in fn.live_calls():
            for pat, label in ENTROPY:
                if re.search(pat, c.name) or re.search(pat, c.orig_name):
                    rep.finding("C22.SOURCES", fn.name, "entropy:" + label, "`%s` consults %s: outputs may differ between processes" % (c.name, label), c.loc())
            if re.search(r"ahash::RandomState::(new|with_seed|generate_with)$|ahash::RandomState as std::default::Default>::default$", c.name):
                nseed += 1
                # a seed may only feed hash tables / hash_one
                dl = c.dest[0]
                users = [c2 for c2 in fn.live_calls() if any(op_place(a) is not None and op_place(a)[0] == dl for a in c2.args)]
                for u in users:
                    if not re.search(r"with_hasher|with_capacity_and_hasher|hash_one|get_or_init|OnceLock", u.name):
                        rep.finding("C22.SOURCES", fn.name, "seed-use:" + u.name.split("::")[-1], "a random hasher seed flows into `%s`" % u.name, u.loc())
    rep.instance("C22.SOURCES", "no clock / env / thread-id / process-id / OS-randomness call in %d functions" % len(prog.fns))
    rep.instance("C22.SOURCES", "%d hasher-seed constructions, each feeding only hash tables or hash_one" % nseed)


def run(prog, rep):
    rule_hashiter(prog, rep)
    rule_taint(prog, rep)
    rule_sources(prog, rep)
    rep.assume("indexmap preserves insertion order; std sort/sort_by_key are deterministic for a given input sequence")
