"""Specialising walk over MIR-lite: follow the CFG of one function from a start block with some
scalar locals / enum payloads fixed to given constants, deciding every switch whose operand is
known and forking on the others, and collect the *effects* (calls matching a pattern, with their
evaluated arguments) of each resulting path.

This is partial evaluation of the control-flow graph, used to read a decision table row by row
("with c = '\\' and the next character = 'n', which pushes happen?") without depending on whether
the source spelled the decision as a `match`, an `if`/`else if` chain, an early `continue`, or a
comparison against a constant.  Nothing is executed: unknown values stay unknown and both edges of
a switch on an unknown value are followed."""
import re

from .core import Undecided, op_const, op_local, op_place

UNKNOWN = None


def const_value(op):
    """operand -> int for scalar constants (bool / char / integers), else None"""
    c = op_const(op)
    if c is None:
        return None
    extra = c[2] if isinstance(c[2], dict) else {}
    if "int" in extra:
        try:
            return int(extra["int"])
        except ValueError:
            return None
    if c[1] == "true":
        return 1
    if c[1] == "false":
        return 0
    return None


_BIN = {
    "Eq": lambda a, b: int(a == b),
    "Ne": lambda a, b: int(a != b),
    "Lt": lambda a, b: int(a < b),
    "Le": lambda a, b: int(a <= b),
    "Gt": lambda a, b: int(a > b),
    "Ge": lambda a, b: int(a >= b),
    "BitAnd": lambda a, b: a & b,
    "BitOr": lambda a, b: a | b,
    "BitXor": lambda a, b: a ^ b,
}


class Spec:
    """payloads: {(local, variant_name, field_index): int}  -- value of `(_local as Variant).field`
    discrs:   {local: variant_index}                     -- discriminant of `_local`
    effect_re: calls whose name matches are recorded as (short name, [arg values or descriptions])
    stop_blocks: the walk ends (path complete) on entering one of these blocks"""

    def __init__(self, fn, payloads=None, discrs=None, effect_re=None, stop_blocks=(), max_paths=256, pure_re=None, call_values=None):
        self.fn = fn
        self.payloads = payloads or {}
        self.discrs = discrs or {}
        self.effect_re = effect_re
        self.stop = set(stop_blocks)
        self.max_paths = max_paths
        self.pure_re = pure_re
        # call_values: {block of a call: int} -- fixed result of that call (a premise of the row)
        self.call_values = call_values or {}
        self.paths = []

    # -- evaluation
    def place_value(self, pl, env):
        l, proj = pl
        if not proj:
            return env.get(l, UNKNOWN)
        # strip derefs of references to a known local: not tracked
        if len(proj) == 2 and proj[0][0] == "d" and proj[1][0] == "f":
            key = (l, proj[0][2], proj[1][1])
            if key in self.payloads:
                return self.payloads[key]
        return UNKNOWN

    def operand_value(self, op, env):
        v = const_value(op)
        if v is not None:
            return v
        pl = op_place(op)
        if pl is not None:
            return self.place_value(pl, env)
        return UNKNOWN

    def describe(self, op, env):
        v = self.operand_value(op, env)
        if v is not None:
            return v
        return "?" + self.fn.sym(op)

    def step_block(self, b, env, effects):
        fn = self.fn
        for s in fn.stmts(b):
            if s[0] != "=":
                continue
            l, proj = s[1]
            if proj:
                continue
            rv = s[2]
            k = rv[0]
            v = UNKNOWN
            if k == "use":
                v = self.operand_value(rv[1], env)
            elif k == "discr":
                pl = rv[1]
                if not pl[1] and pl[0] in self.discrs:
                    v = self.discrs[pl[0]]
            elif k == "bin":
                a = self.operand_value(rv[2], env)
                c = self.operand_value(rv[3], env)
                if a is not None and c is not None and rv[1] in _BIN:
                    v = _BIN[rv[1]](a, c)
            elif k == "un" and rv[1] == "Not":
                a = self.operand_value(rv[2], env)
                if a is not None:
                    v = int(not a)
            elif k == "cast":
                try:
                    v = self.operand_value(rv[-1] if isinstance(rv[-1], list) and rv[-1] and rv[-1][0] in ("c", "m", "k") else rv[2], env)
                except Exception:
                    v = UNKNOWN
            if v is None:
                env.pop(l, None)
            else:
                env[l] = v
        t = fn.term(b)
        if t[0] == "call":
            call = fn.call_at(b)
            if self.effect_re and re.search(self.effect_re, call.name):
                effects.append((call.name, tuple(self.describe(a, env) for a in call.args), b))
            dl, dproj = t[3]
            if not dproj:
                if b in self.call_values:
                    env[dl] = self.call_values[b]
                else:
                    env.pop(dl, None)

    def run(self, start):
        fn = self.fn
        succs = fn.succs()
        out = []

        def rec(b, env, effects, onpath):
            if len(out) > self.max_paths:
                raise Undecided("specialised walk of %s: too many paths" % fn.name)
            if b in self.stop and onpath:
                out.append((list(effects), b))
                return
            env = dict(env)
            effects = list(effects)
            self.step_block(b, env, effects)
            t = fn.term(b)
            if t[0] == "ret":
                out.append((effects, b))
                return
            if t[0] == "unreachable":
                return
            nxt = list(dict.fromkeys(succs[b]))
            if t[0] == "switch":
                v = self.operand_value(t[1], env)
                if v is not None:
                    tgt = None
                    for val, tb in t[2]:
                        if int(val) == v:
                            tgt = tb
                            break
                    if tgt is None:
                        tgt = t[3]
                    nxt = [tgt]
            for s in nxt:
                if s in onpath and s not in self.stop:
                    # an inner loop on an undecided condition: cut, and say so in the effects
                    out.append((effects + [("<loop>", (), s)], s))
                    continue
                rec(s, env, effects, onpath | {b})

        rec(start, {}, [], frozenset())
        self.paths = out
        return out
