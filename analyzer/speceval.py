"""Specialising walk over MIR-lite: follow the CFG of one function from a start block with some
scalar locals / enum payloads fixed to given constants, deciding every switch whose operand is
known and forking on the others, and collect the *effects* (calls matching a pattern, with their
evaluated arguments) of each resulting path.

This is partial evaluation of the control-flow graph, used to read a decision table row by row
("with c = '\\' and the next character = 'n', which pushes happen?") without depending on whether
the source spelled the decision as a `match`, an `if`/`else if` chain, an early `continue`, or a
comparison against a constant.  Nothing is executed: unknown values stay unknown and both edges of
a switch on an unknown value are followed."""
import re

from .core import Undecided, op_const, op_local, op_place

UNKNOWN = None


def const_value(op):
    """operand -> int for scalar constants (bool / char / integers), else None"""
    c = op_const(op)
    if c is None:
        return None
    extra = c[2] if isinstance(c[2], dict) else {}
    if "int" in extra:
        try:
            return int(extra["int"])
        except ValueError:
            return None
    if c[1] == "true":
        return 1
    if c[1] == "false":
        return 0
    return None


_BIN = {
    "Eq": lambda a, b: int(a == b),
    "Ne": lambda a, b: int(a != b),
    "Lt": lambda a, b: int(a < b),
    "Le": lambda a, b: int(a <= b),
    "Gt": lambda a, b: int(a > b),
    "Ge": lambda a, b: int(a >= b),
    "BitAnd": lambda a, b: a & b,
    "BitOr": lambda a, b: a | b,
    "BitXor": lambda a, b: a ^ b,
}


class Spec:
    """payloads: {(local, variant_name, field_index): int}  -- value of `(_local as Variant).field`
    discrs:   {local: variant_index}                     -- discriminant of `_local`
    effect_re: calls whose name matches are recorded as (short name, [arg values or descriptions])
    stop_blocks: the walk ends (path complete) on entering one of these blocks"""

    def __init__(self, fn, payloads=None, discrs=None, effect_re=None, stop_blocks=(), max_paths=256, pure_re=None, call_values=None):
        self.fn = fn
        self.payloads = payloads or {}
        self.discrs = discrs or {}
        self.effect_re = effect_re
        self.stop = set(stop_blocks)
        self.max_paths = max_paths
        self.pure_re = pure_re
        # call_values: {block of a call: int} -- fixed result of that call (a premise of the row)
        self.call_values = call_values or {}
        self.paths = []

    # -- evaluation
    def place_value(self, pl, env):
        l, proj = pl
        if not proj:
            return env.get(l, UNKNOWN)
        # references are transparent (a `ref` copies the abstract value): drop leading derefs
        base = env.get(l, UNKNOWN)
        if isinstance(base, tuple) and base and base[0] == "opt":
            rest = [p for p in proj if p != "*"]
            if not rest:
                return base
            if len(rest) == 2 and rest[0][0] == "d" and rest[0][2] == "Some" and rest[1][0] == "f" and base[1] is not None:
                return base[1]
            return UNKNOWN
        # strip derefs of references to a known local: not tracked
        if len(proj) == 2 and proj[0][0] == "d" and proj[1][0] == "f":
            key = (l, proj[0][2], proj[1][1])
            if key in self.payloads:
                return self.payloads[key]
        return UNKNOWN

    def operand_value(self, op, env):
        v = const_value(op)
        if v is not None:
            return v
        c = op_const(op)
        if c is not None:
            # a constant (or promoted reference to a constant) of type Option<bool>
            extra = c[2] if isinstance(c[2], dict) else {}
            txt = extra.get("pointee") or (c[1] if isinstance(c[1], str) else "")
            m = re.search(r"Option::<bool>::(?:Some\((true|false)\)|(None))$", txt)
            if m:
                return ("opt", None if m.group(2) else int(m.group(1) == "true"))
        pl = op_place(op)
        if pl is not None:
            return self.place_value(pl, env)
        return UNKNOWN

    def describe(self, op, env):
        v = self.operand_value(op, env)
        if v is not None:
            return v
        return "?" + self.fn.sym(op)

    def step_block(self, b, env, effects):
        fn = self.fn
        for s in fn.stmts(b):
            if s[0] != "=":
                continue
            l, proj = s[1]
            if proj:
                continue
            rv = s[2]
            k = rv[0]
            v = UNKNOWN
            if k == "use":
                v = self.operand_value(rv[1], env)
            elif k == "discr":
                pl = rv[1]
                if not pl[1] and pl[0] in self.discrs:
                    v = self.discrs[pl[0]]
                else:
                    ov = self.place_value(pl, env) if all(p == "*" for p in pl[1]) else UNKNOWN
                    if isinstance(ov, tuple) and ov and ov[0] == "opt":
                        v = 0 if ov[1] is None else 1
            elif k == "ref":
                v = self.place_value(rv[2], env)
                if not (isinstance(v, tuple) and v and v[0] == "opt"):
                    v = UNKNOWN  # only Option<bool> values travel through references
            elif k == "agg" and isinstance(rv[1], list) and rv[1][0] == "adt" and rv[1][1] == "std::option::Option":
                if rv[1][2] == "None":
                    v = ("opt", None)
                elif rv[1][2] == "Some" and len(rv[2]) == 1:
                    pv = self.operand_value(rv[2][0], env)
                    if isinstance(pv, int):
                        v = ("opt", pv)
            elif k == "bin":
                a = self.operand_value(rv[2], env)
                c = self.operand_value(rv[3], env)
                if isinstance(a, int) and isinstance(c, int) and rv[1] in _BIN:
                    v = _BIN[rv[1]](a, c)
            elif k == "un" and rv[1] == "Not":
                a = self.operand_value(rv[2], env)
                if isinstance(a, int):
                    v = int(not a)
            elif k == "cast":
                try:
                    v = self.operand_value(rv[-1] if isinstance(rv[-1], list) and rv[-1] and rv[-1][0] in ("c", "m", "k") else rv[2], env)
                except Exception:
                    v = UNKNOWN
            if v is None:
                env.pop(l, None)
            else:
                env[l] = v
        t = fn.term(b)
        if t[0] == "call":
            call = fn.call_at(b)
            if self.effect_re and re.search(self.effect_re, call.name):
                effects.append((call.name, tuple(self.describe(a, env) for a in call.args), b))
            dl, dproj = t[3]
            if not dproj:
                if b in self.call_values:
                    env[dl] = self.call_values[b]
                else:
                    pv = self.pure_option_call(call, env)
                    if pv is None:
                        env.pop(dl, None)
                    else:
                        env[dl] = pv

    def pure_option_call(self, call, env):
        """std functions over Option<bool> whose arguments are known: unwrap_or, unwrap_or_default,
        is_some, is_none, ==, != (the ways a tri-state flag is turned into a condition)"""
        vals = [self.operand_value(a, env) for a in call.args]

        def opt(x):
            return isinstance(x, tuple) and len(x) == 2 and x[0] == "opt"

        n = call.name
        if re.search(r"Option::<T>::unwrap_or$", n) and len(vals) == 2 and opt(vals[0]) and isinstance(vals[1], int):
            return vals[1] if vals[0][1] is None else vals[0][1]
        if re.search(r"Option::<T>::unwrap_or_default$", n) and len(vals) == 1 and opt(vals[0]):
            return 0 if vals[0][1] is None else vals[0][1]
        if re.search(r"Option::<T>::is_some$", n) and len(vals) == 1 and opt(vals[0]):
            return int(vals[0][1] is not None)
        if re.search(r"Option::<T>::is_none$", n) and len(vals) == 1 and opt(vals[0]):
            return int(vals[0][1] is None)
        if re.search(r"PartialEq(<[^()]*>)?>?::(eq|ne)$", n) and len(vals) == 2 and opt(vals[0]) and opt(vals[1]):
            e = vals[0][1] == vals[1][1]
            return int(e if n.endswith("eq") else not e)
        if re.search(r"Option::<T>::(copied|cloned|as_ref)$|Clone>?::clone$", n) and len(vals) == 1 and opt(vals[0]):
            return vals[0]
        return None

    def run(self, start):
        fn = self.fn
        succs = fn.succs()
        out = []

        def rec(b, env, effects, onpath):
            if len(out) > self.max_paths:
                raise Undecided("specialised walk of %s: too many paths" % fn.name)
            if b in self.stop and onpath:
                out.append((list(effects), b))
                return
            env = dict(env)
            effects = list(effects)
            self.step_block(b, env, effects)
            t = fn.term(b)
            if t[0] == "ret":
                out.append((effects, b))
                return
            if t[0] == "unreachable":
                return
            nxt = list(dict.fromkeys(succs[b]))
            if t[0] == "switch":
                v = self.operand_value(t[1], env)
                if isinstance(v, int):
                    tgt = None
                    for val, tb in t[2]:
                        if int(val) == v:
                            tgt = tb
                            break
                    if tgt is None:
                        tgt = t[3]
                    nxt = [tgt]
            for s in nxt:
                if s in onpath and s not in self.stop:
                    # an inner loop on an undecided condition: cut, and say so in the effects
                    out.append((effects + [("<loop>", (), s)], s))
                    continue
                rec(s, env, effects, onpath | {b})

        rec(start, {}, [], frozenset())
        self.paths = out
        return out
