"""E3: decision-table extraction.
 * HIR pattern helpers over enum-variant domains (first-match semantics)
 * MIR path enumeration for small loop-free functions (atoms branched on + leaf)"""
import re

from .core import Undecided, op_const, op_local, op_place
from .flow import _strip, cp_switch_target, cp_transfer, edge_facts
from .hirq import res_path, walk


# ---------------------------------------------------------------------------------- HIR


def strip_expr(e):
    """strip blocks with only a tail expression, references and dereferences, DropTemps"""
    while isinstance(e, dict):
        k = e.get("k")
        if k == "block" and not e.get("stmts") and e.get("expr") is not None:
            e = e["expr"]
        elif k == "ref":
            e = e["e"]
        elif k == "un" and e.get("op") == "*":
            e = e["a"]
        else:
            break
    return e


def local_of(e):
    """name of the local a (stripped) path expression refers to, else None"""
    e = strip_expr(e)
    if isinstance(e, dict) and e.get("k") == "path":
        r = e.get("res")
        if r and r[0] == "local":
            return r[1]
        if r and r[0] == "def" and r[1] in ("SelfTy",):
            return "self"
    return None


def variant_name_of_pat(p):
    """variant (last path segment) a tstruct/struct/path pattern refers to, else None"""
    k = p.get("k")
    if k in ("tstruct", "struct", "path"):
        r = p.get("res")
        if r and r[0] == "def":
            # constructors: r[4] is the variant path; plain variant paths: r[2]
            path = r[4] if len(r) > 4 else r[2]
            return path.split("::")[-1]
        if r and r[0] == "selfctor":
            return "Self"
    return None


def pat_matches_variant(p, v):
    """does pattern p match a value whose outermost enum variant is v? (payload patterns
    must be irrefutable bindings/wildcards, otherwise Undecided)"""
    k = p.get("k")
    if k == "_":
        return True
    if k == "bind":
        if p.get("sub"):
            return pat_matches_variant(p["sub"], v)
        return True
    if k == "ref":
        return pat_matches_variant(p["p"], v)
    if k == "or":
        return any(pat_matches_variant(q, v) for q in p["pats"])
    if k in ("tstruct", "struct", "path"):
        vn = variant_name_of_pat(p)
        if vn is None:
            raise Undecided("pattern path not resolvable")
        if vn != v:
            return False
        subs = p.get("subs") or [f[1] for f in p.get("fields", [])]
        for s in subs:
            if not irrefutable(s):
                raise Undecided("refutable payload pattern in decision table")
        return True
    raise Undecided("pattern kind %s not supported in a variant table" % k)


def irrefutable(p):
    k = p.get("k")
    if k in ("_",):
        return True
    if k == "bind":
        return not p.get("sub") or irrefutable(p["sub"])
    if k == "ref":
        return irrefutable(p["p"])
    if k == "tuple":
        return all(irrefutable(q) for q in p["pats"])
    return False


def bindings(p):
    """names bound anywhere inside pattern p"""
    return [q["name"] for q in walk(p) if q.get("k") == "bind"]


def first_match(arms, pred):
    """index of the first arm whose pattern satisfies pred (guards are not supported)"""
    for i, a in enumerate(arms):
        if a.get("guard") is not None:
            raise Undecided("match guard in a decision table")
        if pred(a["pat"]):
            return i
    return None


def find_single_match(body, src="normal"):
    """the function body must be (a block whose tail is) a single match expression"""
    e = body
    while isinstance(e, dict) and e.get("k") == "block" and not e.get("stmts") and e.get("expr") is not None:
        e = e["expr"]
    if isinstance(e, dict) and e.get("k") == "match" and e.get("src") == src:
        return e
    return None


# ---------------------------------------------------------------------------------- MIR paths


def enum_paths(fn, max_paths=4000, max_len=400, start=0, stops=(), inner_loops="error"):
    """Enumerate acyclic non-unwind paths entry -> return of a small function.
    Each result: (atoms, ret_block, path_blocks) where atoms is the list of edge facts
    (hashable tuples) of the switches taken, in path order.  Boolean locals assigned constants
    along the path are propagated so that `&&`/`||`/matches! join-switches follow only the
    feasible edge."""
    out = []
    succs = fn.succs()

    def rec(b, atoms, env, path, onpath):
        if len(out) >= max_paths or len(path) > max_len:
            raise Undecided("too many paths in %s" % fn.name)
        if b in stops and path:
            out.append((list(atoms), b, list(path) + [b]))
            return
        env = cp_transfer(fn, b, env)
        t = fn.term(b)
        if t[0] == "ret":
            out.append((list(atoms), b, list(path) + [b]))
            return
        if t[0] == "switch":
            info = fn.switch_info(b)
            l = info.get("local")
            s = cp_switch_target(fn, b, env)
            if s is not None:
                if s not in onpath:
                    rec(s, atoms, env, path + [b], onpath | {b})
                return
            # variants of call results already decided on this path (a second switch on the same
            # discriminant, e.g. drop elaboration of a match scrutinee, follows the same variant)
            decided = {}
            for f in atoms:
                if f[0] == "variant" and f[3] is True and f[1].startswith("call:"):
                    decided[f[1]] = f[2]
            cands = []
            for s in dict.fromkeys(succs[b]):
                if s in onpath:
                    continue
                if fn.term(s)[0] == "unreachable":
                    continue
                # callbool facts keep their Call object at index 4; flags assigned in several
                # blocks are resolved to their definition on this path
                fs = edge_facts(fn, b, s, path={pb: i for i, pb in enumerate(path + [b])})
                feasible = True
                for f in fs:
                    if f[0] == "variant" and f[3] is True and f[1] in decided and decided[f[1]] != f[2]:
                        feasible = False
                    if f[0] == "variant_in" and f[1] in decided and decided[f[1]] not in f[2]:
                        feasible = False
                cands.append((s, fs, feasible))
            if any(c[2] for c in cands):
                cands = [c for c in cands if c[2]]
            for s, fs, _ok in cands:
                new = [f for f in fs if not (f[0] == "variant" and f[3] is True and decided.get(f[1]) == f[2])]
                rec(s, atoms + new, env, path + [b], onpath | {b})
            return
        for s in succs[b]:
            if s in onpath:
                if inner_loops == "cut":
                    continue
                raise Undecided("loop in %s: path enumeration needs a loop-free function" % fn.name)
            rec(s, atoms, env, path + [b], onpath | {b})

    stops = set(stops)
    rec(start, [], {}, [], frozenset())
    return out


def return_value_on_path(fn, path):
    """symbolic value assigned to the return place by the last assignment on the path; locals
    with several definitions (match / if results) are resolved to their definition on this path"""
    old = getattr(fn, "_sym_path", None)
    fn._sym_path = {b: i for i, b in enumerate(path)}
    try:
        return _return_value_on_path(fn, path)
    finally:
        fn._sym_path = old


def _return_value_on_path(fn, path):
    """symbolic value assigned to the return place by the last assignment on the path"""
    val = None
    for b in path:
        for s in fn.stmts(b):
            if s[0] == "=" and s[1][0] == 0 and not s[1][1]:
                rv = s[2]
                if rv[0] == "use":
                    val = fn.sym(rv[1])
                elif rv[0] == "agg" and isinstance(rv[1], list):
                    val = "%s::%s{%s}" % (rv[1][1].split("::")[-1], rv[1][2], ", ".join(fn.sym(a) for a in rv[2]))
                elif rv[0] == "bin":
                    val = "%s(%s, %s)" % (rv[1], fn.sym(rv[2]), fn.sym(rv[3]))
                elif rv[0] == "un":
                    val = "%s(%s)" % (rv[1], fn.sym(rv[2]))
                elif rv[0] in ("ref", "raw"):
                    val = "&" + fn.sym(rv[2])
                else:
                    val = rv[0]
        t = fn.term(b)
        if t[0] == "call" and t[3][0] == 0 and not t[3][1]:
            c = fn.call_at(b)
            from .core import short_callee
            val = "%s(%s)" % (short_callee(c.name), ", ".join(fn.sym(a) for a in c.args))
    return val
