"""Helpers for rules written over HIR-lite bodies (names and resolved callees intact, also inside
async fns where MIR is already a state machine)."""
from .core import Undecided
from .hirq import walk


class Scope:
    """local ids of a function body: parameters, the `let x = x;` re-bindings that async fn
    desugaring puts at the top of the coroutine, and every `let`"""

    def __init__(self, body):
        self.body = body
        self.params = {}  # id -> name
        for p in body.get("params", []):
            for q in walk(p):
                if q.get("k") == "bind":
                    self.params[q["id"]] = q["name"]
        self.alias = {}  # id -> id it is a plain copy of
        self.lets = {}  # id -> slet node (only for simple `let name = init`)
        self.names = dict(self.params)
        for n in walk(body["body"]):
            if n.get("k") == "slet":
                pat = n["pat"]
                for q in walk(pat):
                    if q.get("k") == "bind":
                        self.names[q["id"]] = q["name"]
                if pat.get("k") == "bind":
                    self.lets[pat["id"]] = n
                    init = n.get("init")
                    if init and init.get("k") == "path" and init.get("res") and init["res"][0] == "local":
                        self.alias[pat["id"]] = init["res"][2]
            elif n.get("k") in ("closure",):
                for p in n.get("params", []):
                    for q in walk(p):
                        if q.get("k") == "bind":
                            self.names[q["id"]] = q["name"]
        for n in walk(body["body"]):
            if n.get("k") == "bind" and n.get("id") not in self.names:
                self.names[n["id"]] = n["name"]

    def canon(self, lid):
        seen = set()
        while lid in self.alias and lid not in seen:
            seen.add(lid)
            lid = self.alias[lid]
        return lid

    def is_param(self, lid, name=None):
        c = self.canon(lid)
        return c in self.params and (name is None or self.params[c] == name)

    def key(self, e):
        """canonical text of a simple expression (locals by canonical identity, field accesses,
        no-arg / simple-arg method calls, refs and derefs dropped)"""
        k = e.get("k")
        if k == "path":
            r = e.get("res")
            if r and r[0] == "local":
                c = self.canon(r[2])
                if c in self.params:
                    return "param:" + self.params[c]
                return "%s#%d" % (self.names.get(c, r[1]), c)
            if r and r[0] == "def":
                if r[1].startswith("ctor"):
                    return (r[4] if len(r) > 4 else r[2]).split("::")[-1]
                return r[2]
            return "?"
        if k == "ref":
            return self.key(e["e"])
        if k == "un" and e.get("op") == "*":
            return self.key(e["a"])
        if k == "field":
            return self.key(e["e"]) + "." + e["name"]
        if k == "mcall":
            return "%s.%s(%s)" % (self.key(e["recv"]), e["m"], ", ".join(self.key(a) for a in e["args"]))
        if k == "call":
            c = e.get("callee")
            nm = c[2] if c and c[0] == "def" else "?"
            return "%s(%s)" % (nm.split("::")[-1] if c and c[1].startswith("ctor") else nm, ", ".join(self.key(a) for a in e["args"]))
        if k == "lit":
            return repr(e.get("v"))
        if k == "block" and not e.get("stmts") and e.get("expr") is not None:
            return self.key(e["expr"])
        if k == "index":
            return "%s[%s]" % (self.key(e["e"]), self.key(e["i"]))
        if k == "cast":
            return self.key(e["e"])
        if k == "match" and e.get("src") == "await":
            # `fut.await`: the awaited expression is the argument of IntoFuture::into_future
            s = e.get("scrut", {})
            if s.get("k") == "call" and s.get("args"):
                return self.key(s["args"][0]) + ".await"
        return "<%s>" % k


def calls(body_or_node, suffix):
    """call nodes (free functions / associated functions / constructors) whose resolved path ends
    with `suffix`"""
    out = []
    for n in walk(body_or_node):
        if n.get("k") == "call" and n.get("callee") and n["callee"][0] == "def" and n["callee"][2].endswith(suffix):
            out.append(n)
    return out


def mcalls(body_or_node, suffix):
    return [n for n in walk(body_or_node) if n.get("k") == "mcall" and (n.get("callee") or "").endswith(suffix)]


def contains_node(root, node):
    return any(x is node for x in walk(root))


def enclosing(root, node, kinds):
    """innermost ancestor of `node` (inside root) whose kind is in `kinds`; None if none"""
    best = None

    def rec(n, stack):
        nonlocal best
        if n is node:
            for a in reversed(stack):
                if a.get("k") in kinds:
                    best = a
                    break
            return True
        from .hirq import children
        for c in children(n):
            if rec(c, stack + [n]):
                return True
        return False

    rec(root, [])
    return best


def ancestors(root, node):
    path = []

    def rec(n, stack):
        if n is node:
            path.extend(stack)
            return True
        from .hirq import children
        for c in children(n):
            if rec(c, stack + [n]):
                return True
        return False

    rec(root, [])
    return path


def struct_exprs(body_or_node, ty_suffix):
    return [n for n in walk(body_or_node) if n.get("k") == "struct" and (n.get("ty") or "").split("<")[0].endswith(ty_suffix)]


def require(cond, msg):
    if not cond:
        raise Undecided(msg)
