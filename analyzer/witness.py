"""E4: run the compile-fail / compile-pass witness doc-tests against the tree under analysis."""
import os
import re
import shutil
import subprocess
import tempfile

from . import facts as F

VERIF = F.VERIF


def run(rep, names):
    repo = F.repo_dir()
    work = tempfile.mkdtemp(prefix="verif-witness-")
    try:
        os.makedirs(os.path.join(work, "src"))
        with open(os.path.join(VERIF, "witness", "Cargo.toml.in")) as fh:
            toml = fh.read().replace("@REPO@", repo)
        with open(os.path.join(work, "Cargo.toml"), "w") as fh:
            fh.write(toml)
        shutil.copy(os.path.join(VERIF, "witness", "src", "lib.rs"), os.path.join(work, "src", "lib.rs"))
        shutil.copy(os.path.join(repo, "Cargo.lock"), os.path.join(work, "Cargo.lock"))
        env = dict(os.environ)
        env["CARGO_NET_OFFLINE"] = "true"
        env["CARGO_TARGET_DIR"] = os.path.join(work, "target")
        r = subprocess.run(["cargo", "+nightly", "test", "--doc", "--offline"], cwd=work, env=env,
                           stdout=subprocess.PIPE, stderr=subprocess.STDOUT, text=True)
        out = r.stdout
        results = {}
        for m in re.finditer(r"^test src/lib\.rs - (\w+) \(line (\d+)\)( - compile fail)? \.\.\. (\w+)", out, re.M):
            results.setdefault(m.group(1), []).append((int(m.group(2)), bool(m.group(3)), m.group(4)))
        if not results:
            rep.fail("WITNESS doc-tests did not run: " + out[-1500:].replace("\n", " | "))
            return
        for n in names:
            rs = results.get(n)
            if not rs:
                rep.fail("WITNESS %s: no doc-test found" % n)
                continue
            cf = [x for x in rs if x[1]]
            cp = [x for x in rs if not x[1]]
            if not cf or not cp:
                rep.fail("WITNESS %s: needs both a compile_fail test and a compiling twin" % n)
                continue
            for line, is_cf, res in rs:
                kind = "compile_fail" if is_cf else "compiles"
                if res == "ok":
                    rep.instance("WITNESS", "%s (line %d, %s): ok" % (n, line, kind))
                else:
                    rep.finding("WITNESS", "witness::" + n, "%s:%s" % (kind, "fails" if is_cf else "broken"),
                                ("the violating program now compiles" if is_cf else "the compiling twin no longer compiles (API changed: re-check the witness)"),
                                "witness/src/lib.rs:%d" % line)
    finally:
        shutil.rmtree(work, ignore_errors=True)
