"""Small intra-procedural flow helpers shared by rules."""
from .core import op_local, op_place, op_const


def resolve_copy_chain(fn, l, target, maxd=12):
    """Is boolean local l a copy / negation chain of local `target`?  returns None or neg flag"""
    neg = False
    cur = l
    d = 0
    while cur != target:
        d += 1
        if d > maxd or cur is None:
            return None
        sd = fn.single_def(cur)
        if sd is None:
            return None
        rv = sd[2]
        if rv[0] == "use":
            cur = op_local(rv[1])
        elif rv[0] == "un" and rv[1] == "Not":
            neg = not neg
            cur = op_local(rv[2])
        else:
            return None
    return neg


def branch_on_call(fn, call):
    """The call returns a bool; find the switch that decides on it.
    Returns (true_target, false_target, switch_block) or None."""
    if call.dest[1]:
        return None
    l = call.dest[0]
    b = call.target
    seen = set()
    while b is not None and b not in seen:
        seen.add(b)
        t = fn.term(b)
        if t[0] == "switch":
            ol = op_local(t[1])
            neg = resolve_copy_chain(fn, ol, l)
            if neg is None:
                return None
            info = fn.switch_info(b)
            if info.get("kind") != "bool":
                return None
            e = info["edges"]
            if neg:
                return (e[False], e[True], b)
            return (e[True], e[False], b)
        elif t[0] == "goto":
            b = t[1]
        else:
            return None
    return None


def branch_on_enum_call(fn, call):
    """The call returns an enum (Option/Result/ControlFlow ...) which is immediately
    switched on (possibly through a move).  Returns (info, switch_block) or None."""
    if call.dest[1]:
        return None
    l = call.dest[0]
    b = call.target
    seen = set()
    while b is not None and b not in seen:
        seen.add(b)
        t = fn.term(b)
        if t[0] == "switch":
            info = fn.switch_info(b)
            if info.get("kind") != "enum":
                return None
            pl = info["place"]
            # the place must be rooted at l (possibly via copies)
            base = pl[0]
            if base != l:
                ap = fn.apath(pl)
                if not ap[0].startswith("call:") or not ap[0].endswith("@%d" % call.block):
                    return None
            return info, b
        elif t[0] == "goto":
            b = t[1]
        else:
            return None
    return None


def count_paths(fn, start, counts_block, stop=(), cap=2, init=0):
    """Forward dataflow from the *entry* of block `start`: the set of possible numbers of
    counted events (capped) at the entry of every reachable block.  counts_block(b) -> int
    number of events contributed by executing block b (its terminator).  Propagation does
    not continue out of blocks in `stop` (but their entry states are recorded).
    Returns dict block -> set(counts at block entry), and dict ret_block -> set(counts at exit)."""
    entry = {start: {init}}
    work = [start]
    exits = {}
    stop = set(stop)
    while work:
        b = work.pop()
        ins = entry[b]
        add = counts_block(b)
        outs = set(min(cap, x + add) for x in ins)
        t = fn.term(b)
        if t[0] == "ret":
            exits[b] = set(outs) | exits.get(b, set())
        if b in stop and b != start:
            continue
        for s in fn.succs()[b]:
            cur = entry.get(s)
            if cur is None:
                entry[s] = set(outs)
                work.append(s)
            elif not outs <= cur:
                cur |= outs
                work.append(s)
    return entry, exits


def must_pass(fn, starts, targets, through):
    """every non-unwind path from the entry of any block in `starts` to any block in
    `targets` executes some block in `through`"""
    through = set(through)
    starts = [s for s in starts if s not in through]
    reach = fn.reachable_blocks(starts, avoid=through)
    return not (reach & set(targets)), reach & set(targets)


def cp_transfer(fn, b, env):
    """Constant propagation through one block for path-sensitive walks.  Tracks, per whole local:
    True / False (boolean constants, their copies and negations), ("V", variant) for a local just
    built as an enum aggregate (`_r = Option::None`) or moved from one, and ("D", variant) for the
    discriminant read of such a local.  Anything else assigned, call results, and locals that are
    mutably borrowed or partially written lose their entry.  Returns a new env."""
    env = dict(env)
    for s in fn.stmts(b):
        if s[0] == "setdiscr":
            env.pop(s[1][0], None)
            continue
        if s[0] != "=":
            continue
        l, proj = s[1]
        rv = s[2]
        if rv[0] == "ref" and rv[1] == "mut":
            env.pop(rv[2][0], None)
        if proj:
            env.pop(l, None)
            continue
        if rv[0] == "use":
            c = op_const(rv[1])
            if c is not None and c[0] == "bool":
                env[l] = (c[2].get("int") == "1") if "int" in c[2] else (c[1] == "true")
                continue
            sl = op_local(rv[1])
            if sl is not None and sl in env:
                env[l] = env[sl]
                continue
        elif rv[0] == "un" and rv[1] == "Not":
            sl = op_local(rv[2])
            if sl is not None and isinstance(env.get(sl), bool):
                env[l] = not env[sl]
                continue
        elif rv[0] == "agg" and isinstance(rv[1], list) and rv[1][0] == "adt" and len(rv[1]) > 2:
            env[l] = ("V", rv[1][2])
            continue
        elif rv[0] == "discr":
            pl = rv[1]
            v = env.get(pl[0]) if not pl[1] else None
            if isinstance(v, tuple) and v[0] == "V":
                env[l] = ("D", v[1])
                continue
        env.pop(l, None)
    t = fn.term(b)
    if t[0] == "call":
        for a in t[2]:
            pl = op_place(a)
            if pl is not None and a[0] == "m":
                env.pop(pl[0], None)
        if not t[3][1]:
            env.pop(t[3][0], None)
    return env


def cp_switch_target(fn, b, env):
    """the single feasible successor of switch block b under env, or None when undecided"""
    info = fn.switch_info(b)
    if info is None:
        return None
    l = info.get("local")
    v = env.get(l)
    if info.get("kind") == "bool" and isinstance(v, bool):
        return info["edges"][v]
    if info.get("kind") == "enum" and isinstance(v, tuple) and v[0] == "D":
        return info["edges"].get(v[1], info["otherwise"])
    return None


def reachable_cp(fn, starts, avoid=(), max_states=20000):
    """Blocks reachable from the entry of `starts` without entering `avoid`, pruning switch edges
    that contradict constants assigned earlier on the same path (`_r = const true; ..; switch _r`,
    `_r = Option::None; ..; match _r`).  This is what makes must-pass-through rules exact on code
    where a helper that returns `true` / `false` / `None` was inlined: the caller's test of the
    returned value is decided on each path (see cp_transfer for what is tracked)."""
    avoid = set(avoid)
    seen_blocks = set()
    seen = set()
    work = [(s, ()) for s in starts if s not in avoid]
    n = 0
    while work:
        b, envt = work.pop()
        if (b, envt) in seen:
            continue
        seen.add((b, envt))
        seen_blocks.add(b)
        n += 1
        if n > max_states:
            # give up on pruning: fall back to plain reachability (sound for must-pass rules)
            return fn.reachable_blocks(starts, avoid=avoid)
        env = cp_transfer(fn, b, dict(envt))
        succ = fn.succs()[b]
        if fn.term(b)[0] == "switch":
            tgt = cp_switch_target(fn, b, env)
            if tgt is not None:
                succ = [tgt]
        envt2 = tuple(sorted(env.items(), key=lambda kv: kv[0]))
        for s2 in succ:
            if s2 not in avoid:
                work.append((s2, envt2))
    return seen_blocks


def must_pass_cp(fn, starts, targets, through):
    """must_pass with boolean constant propagation along paths (see reachable_cp)"""
    through = set(through)
    starts = [s for s in starts if s not in through]
    reach = reachable_cp(fn, starts, avoid=through)
    return not (reach & set(targets)), reach & set(targets)


def blocks_calling(fn, pred):
    """blocks whose terminator is a call satisfying pred(Call)"""
    return [c.block for c in fn.live_calls() if pred(c)]


def arg_apath(fn, call, i):
    if i >= len(call.args):
        return None
    pl = op_place(call.args[i])
    if pl is None:
        c = op_const(call.args[i])
        return ("const:%s" % c[1],)
    return fn.apath(pl)


def arg_path_s(fn, call, i):
    from .core import norm_path

    ap = arg_apath(fn, call, i)
    return norm_path(ap) if ap else None


# --------------------------------------------------------------------------------------
# dominating edge facts (GUARD template)


def _operand_desc(fn, op):
    from .core import norm_path

    pl = op_place(op)
    if pl is not None:
        return norm_path(fn.apath(pl))
    c = op_const(op)
    ex = c[2]
    if c[0] == "bool" and "int" in ex:
        return "const:true" if ex["int"] == "1" else "const:false"
    if "int" in ex:
        return "const:%s" % ex["int"]
    return "const:%s" % c[1]


def _bool_facts(fn, l, value, depth, path=None):
    """facts implied by boolean local l having `value`.  With `path` (block -> position on the
    CFG path being enumerated) a local assigned in several blocks takes its definition on that
    path, so a flag computed by `match x { Some(q) => q == y, None => false }` yields the facts of
    the arm actually taken instead of the (weaker) facts common to all arms."""
    from .core import norm_path

    if depth > 8 or l is None:
        return []
    ds = [x for x in fn.defs().get(l, []) if not x[3]]
    live = fn.live_blocks()
    ds = [x for x in ds if x[0] in live]
    if len(ds) > 1 and path is not None and l not in fn.mut_borrowed():
        on = [x for x in ds if x[0] in path]
        if on:
            ds = [max(on, key=lambda x: (path[x[0]], 10 ** 6 if x[1] == "term" else x[1]))]
            rv = ds[0][2]
            if rv[0] == "use" and op_const(rv[1]) is not None:
                return []  # a constant on this path: the switch was decided, nothing to learn
    if len(ds) == 1:
        rv = ds[0][2]
        k = rv[0]
        if k == "callret":
            call = rv[1]
            args = tuple(arg_path_s(fn, call, i) for i in range(len(call.args)))
            return [("callbool", call.name, args, value, call)]
        if k == "un" and rv[1] == "Not":
            return _bool_facts(fn, op_local(rv[2]), not value, depth + 1, path)
        if k == "use":
            pl = op_place(rv[1])
            if pl is not None:
                if not pl[1]:
                    return _bool_facts(fn, pl[0], value, depth + 1, path)
                return [("place", norm_path(fn.apath(pl)), value)]
            return []
        if k == "bin":
            return [("cmp", rv[1], _operand_desc(fn, rv[2]), _operand_desc(fn, rv[3]), value)]
        return []
    # phi of constants (matches!, &&, ||, early `return true/false` of an inlined helper): the
    # value v was assigned in some blocks; other definitions copy / negate another boolean or take
    # a call result
    if ds and all(x[2][0] in ("use", "un", "callret") for x in ds):
        parts = []  # one {stripped fact: full fact} map per definition that can produce `value`

        def asmap(fs):
            return {s: f for s, f in zip(_strip(fs), fs)}

        for x in ds:
            rv = x[2]
            here = facts_at(fn, x[0], depth + 1)
            if rv[0] == "use":
                c = op_const(rv[1])
                if c is not None:
                    v = (c[2].get("int") == "1") if "int" in c[2] else (c[1] == "true")
                    if v == value:
                        parts.append(asmap(here))
                    continue
                il = op_local(rv[1])
                parts.append(asmap(here + _bool_facts(fn, il, value, depth + 1)))
            elif rv[0] == "un" and rv[1] == "Not":
                il = op_local(rv[2])
                parts.append(asmap(here + _bool_facts(fn, il, not value, depth + 1)))
            elif rv[0] == "callret":
                call = rv[1]
                args = tuple(arg_path_s(fn, call, i) for i in range(len(call.args)))
                parts.append(asmap(here + [("callbool", call.name, args, value, call)]))
            else:
                parts.append(asmap(here))
        if not parts:
            return []
        keys = set(parts[0])
        for p in parts[1:]:
            keys &= set(p)
        return [parts[0][k] for k in keys]
    return []


def _strip(fs):
    """make facts hashable (drop Call objects)"""
    out = []
    for f in fs:
        if f[0] == "callbool":
            out.append(f[:4])
        else:
            out.append(f)
    return out


def edge_facts(fn, d, s, depth=0, path=None):
    """facts implied by taking the edge d -> s where d ends in a switch (`path`: see _bool_facts)"""
    from .core import norm_path

    info = fn.switch_info(d)
    if info is None:
        return []
    if info.get("kind") == "enum":
        path = norm_path(fn.apath(info["place"]))
        labels = [n for n, tb in info["edges"].items() if tb == s]
        is_other = info["otherwise"] == s
        # unreachable otherwise block does not count
        if labels and not is_other:
            if len(labels) == 1:
                return [("variant", path, labels[0], True)]
            return [("variant_in", path, tuple(sorted(labels)))]
        if is_other and not labels:
            rest = info["rest"]
            if len(rest) == 1:
                return [("variant", path, rest[0], True)]
            return [("variant_in", path, tuple(sorted(rest)))]
        return []
    if info.get("kind") == "bool":
        vals = [v for v, tb in info["edges"].items() if tb == s]
        if len(vals) != 1:
            return []
        return _bool_facts(fn, info["local"], vals[0], depth, path)
    if info.get("kind") == "int":
        l = info["local"]
        vals = [v for v, tb in info["targets"] if tb == s]
        if l is not None and len(vals) == 1 and info["otherwise"] != s:
            sd = fn.single_def(l)
            if sd is not None and sd[2][0] == "use" and op_place(sd[2][1]) is not None:
                return [("inteq", norm_path(fn.apath(op_place(sd[2][1]))), vals[0])]
            return [("inteq", "tmp%d" % l, vals[0])]
    return []


_FACTS_CACHE = {}


def facts_at(fn, b, depth=0):
    """facts that hold on every non-unwind path from entry to block b (from the switch
    edges that dominate b)"""
    key = (fn.uid, b)
    if depth == 0 and key in _FACTS_CACHE:
        return _FACTS_CACHE[key]
    if depth > 8:
        return []
    idom = fn.dominators()
    preds = fn.preds()
    out = []
    cur = b
    guard = 0
    while cur != 0 and cur in idom and guard < 10000:
        guard += 1
        d = idom[cur]
        t = fn.term(d)
        if t[0] == "switch":
            # which successor edge of d are we under?
            for s in set(fn.succs()[d]):
                if s == cur or fn.dominates(s, cur):
                    # edge d->s must be the only way into s (besides back edges from within s's region)
                    others = [p for p in preds[s] if p != d and not fn.dominates(s, p)]
                    if not others and s != d:
                        out.extend(edge_facts(fn, d, s, depth + 1))
                    break
        cur = d
    if depth == 0:
        _FACTS_CACHE[key] = out
    return out


def has_fact(facts, kind, **kw):
    for f in facts:
        if f[0] != kind:
            continue
        if kind == "variant":
            if "path_re" in kw:
                import re

                if not re.search(kw["path_re"], f[1]):
                    continue
            if "variant" in kw and f[2] != kw["variant"]:
                continue
            return f
        if kind == "callbool":
            import re

            if "name_re" in kw and not re.search(kw["name_re"], f[1]):
                continue
            if "value" in kw and f[3] != kw["value"]:
                continue
            if "arg0_re" in kw and not (f[2] and f[2][0] and re.search(kw["arg0_re"], f[2][0])):
                continue
            return f
        if kind == "place":
            import re

            if "path_re" in kw and not re.search(kw["path_re"], f[1]):
                continue
            if "value" in kw and f[2] != kw["value"]:
                continue
            return f
    return None


# --------------------------------------------------------------------------------------
# may-derive slices (PROV template, existential form)


def _rv_operands(rv):
    """(places, operands) read by an rvalue"""
    k = rv[0]
    if k == "use":
        return [], [rv[1]]
    if k in ("ref", "raw"):
        return [rv[2]], []
    if k == "cast":
        return [], [rv[2]]
    if k == "bin":
        return [], [rv[2], rv[3]]
    if k == "un":
        return [], [rv[2]]
    if k == "discr":
        return [rv[1]], []
    if k == "agg":
        return [], list(rv[2])
    if k == "repeat":
        return [], [rv[1]]
    return [], []


def derives(fn, operand_or_place, maxn=400):
    """Backward may-slice of a value inside one function.  Returns (paths, calls): the set of
    normalised access paths rooted at arguments / upvars / constants the value may be computed
    from (through copies, borrows, casts, aggregates, and the arguments of every call whose
    result flows in), and the set of Call objects on the way."""
    from .core import norm_path

    paths, calls = set(), []
    seen = set()
    work = []

    def push_place(pl):
        local, proj = pl
        work.append((local, tuple(map(str, proj_key(proj)))))
        for p in proj:
            if isinstance(p, list) and p and p[0] == "i":
                work.append((p[1], ()))

    def proj_key(proj):
        return [repr(p) for p in proj]

    def push_op(op):
        pl = op_place(op)
        if pl is not None:
            push_place(pl)
        else:
            c = op_const(op)
            if c is not None:
                paths.add("const:%s" % c[1])

    if isinstance(operand_or_place, (list, tuple)) and operand_or_place and operand_or_place[0] in ("c", "m", "k"):
        push_op(operand_or_place)
    else:
        push_place(operand_or_place)
    # remember projections for reporting: record apath of every place visited
    n = 0
    while work:
        local, _pk = work.pop()
        if local in seen:
            continue
        seen.add(local)
        n += 1
        if n > maxn:
            break
        if 1 <= local <= fn.argc:
            continue
        for (b, i, rv, partial) in fn.defs().get(local, []):
            if rv[0] == "callret":
                call = rv[1]
                calls.append(call)
                for a in call.args:
                    pl = op_place(a)
                    if pl is not None:
                        paths.add(norm_path(fn.apath(pl, transparent=False)))
                    push_op(a)
            else:
                pls, ops = _rv_operands(rv)
                for pl in pls:
                    paths.add(norm_path(fn.apath(pl, transparent=False)))
                    push_place(pl)
                for op in ops:
                    pl = op_place(op)
                    if pl is not None:
                        paths.add(norm_path(fn.apath(pl, transparent=False)))
                    push_op(op)
    return paths, calls


def always_reaches(fn, start, through, exits):
    """every non-unwind path from the entry of block `start` passes a block in `through`
    before reaching any block in `exits` (paths that end in a panic/abort are ignored)"""
    ok, leaked = must_pass(fn, [start], exits, through)
    return ok


def closure_captures(fn, closure_operand):
    """access paths (in `fn`) of the values captured by the closure passed as an operand"""
    from .core import norm_path

    l = op_local(closure_operand)
    sd = fn.single_def(l) if l is not None else None
    if not sd or sd[2][0] != "agg" or not (isinstance(sd[2][1], list) and sd[2][1][0] == "closure"):
        return None, None
    caps = []
    for op in sd[2][2]:
        pl = op_place(op)
        caps.append(norm_path(fn.apath(pl)) if pl is not None else None)
    return sd[2][1][1], caps


# --------------------------------------------------------------------------------------
# loops (`for` desugaring: a call of Iterator::next whose Option result is switched on)


def loop_headers(fn):
    """{header_block: (some_target, none_target, next_call)} for every `for`-style loop"""
    import re

    out = {}
    for c in fn.live_calls():
        if re.search(r"Iterator>::next$|Iterator::next$", c.name):
            r = branch_on_enum_call(fn, c)
            if r is None:
                continue
            info, _sb = r
            e = info["edges"]
            if "Some" in e:
                out[c.block] = (e["Some"], e.get("None", info.get("rest")), c)
    return out


def loop_body(fn, header, headers=None):
    headers = headers or loop_headers(fn)
    some = headers[header][0]
    body = fn.reachable_blocks([some], avoid=[header])
    # only blocks that can come back to the header belong to the body proper
    return body


def enclosing_loop(fn, b, headers=None):
    """innermost loop header whose body contains block b (and from which b can return to it)"""
    headers = headers or loop_headers(fn)
    best = None
    for h in headers:
        body = loop_body(fn, h, headers)
        if b in body and h in fn.reachable_blocks([b]):
            if best is None or len(body) < best[1]:
                best = (h, len(body))
    return best[0] if best else None


def loop_over(fn, path_re, headers=None):
    """headers of the loops whose iterator derives from an access path matching path_re"""
    import re

    headers = headers or loop_headers(fn)
    out = []
    for h, (_s, _n, nxt) in sorted(headers.items()):
        paths, _ = derives(fn, nxt.args[0])
        if any(re.search(path_re, p) for p in paths):
            out.append(h)
    return out
