"""The regular language accepted by a pure string predicate, computed from its HIR.

`language_of(prog, crate, fn_name)` abstractly interprets a `fn(&str) -> bool` (and the local
predicates it calls) over *segments*: the input is a concatenation of string segments, each
constrained by a regular language over a small alphabet of representative characters.  String
operations split or constrain segments:
  split_once(P)   Some: X = A p B with A in (S-P)*, p in P;   None: X in (S-P)*
  strip_prefix(P) Some: X = p R;   None: X = "" or starts outside P
  strip_suffix(P), starts_with / ends_with(P), is_empty(), len() == 0
  bytes()/chars()/iter() .all(pred) / .any(pred)   X in (pred)* or not
  as_bytes() matched against slice patterns `[a..=b]`, `[a..=b, rest @ ..]`, `[]`
  calls to other local predicates (their language is computed recursively)
Every path that returns true contributes the concatenation of its segments' languages; the result is
the union, a DFA.  Nothing is executed: characters are classes, strings are languages.  Anything
outside the list raises Undecided."""
from .core import Undecided
from .hirq import walk

# ---------------------------------------------------------------------------------- automata


class DFA:
    """complete DFA over a fixed alphabet; states are ints, 0..n-1"""

    def __init__(self, alphabet, trans, start, accept):
        self.alphabet = alphabet
        self.trans = trans  # list of dict sym -> state
        self.start = start
        self.accept = set(accept)

    # -- constructors
    @staticmethod
    def empty(alpha):
        return DFA(alpha, [{a: 0 for a in alpha}], 0, [])

    @staticmethod
    def epsilon(alpha):
        return DFA(alpha, [{a: 1 for a in alpha}, {a: 1 for a in alpha}], 0, [0])

    @staticmethod
    def all(alpha):
        return DFA(alpha, [{a: 0 for a in alpha}], 0, [0])

    @staticmethod
    def cls(alpha, chars):
        """exactly one character from `chars`"""
        return DFA(alpha, [{a: (1 if a in chars else 2) for a in alpha}, {a: 2 for a in alpha}, {a: 2 for a in alpha}], 0, [1])

    @staticmethod
    def cls_star(alpha, chars):
        return DFA(alpha, [{a: (0 if a in chars else 1) for a in alpha}, {a: 1 for a in alpha}], 0, [0])

    # -- operations
    def complement(self):
        return DFA(self.alphabet, self.trans, self.start, set(range(len(self.trans))) - self.accept)

    def product(self, other, mode):
        idx = {}
        trans = []
        acc = []
        work = [(self.start, other.start)]
        idx[work[0]] = 0
        trans.append(None)
        while work:
            p = work.pop()
            i = idx[p]
            row = {}
            for a in self.alphabet:
                q = (self.trans[p[0]][a], other.trans[p[1]][a])
                if q not in idx:
                    idx[q] = len(trans)
                    trans.append(None)
                    work.append(q)
                row[a] = idx[q]
            trans[i] = row
            x, y = p[0] in self.accept, p[1] in other.accept
            if (mode == "and" and x and y) or (mode == "or" and (x or y)) or (mode == "diff" and x and not y) or (mode == "xor" and x != y):
                acc.append(i)
        return DFA(self.alphabet, trans, 0, acc)

    def intersect(self, o):
        return self.product(o, "and")

    def union(self, o):
        return self.product(o, "or")

    def minus(self, o):
        return self.product(o, "diff")

    def concat(self, other):
        """subset construction over (state of self, set of states of other)"""
        alpha = self.alphabet

        def close(s, T):
            T = set(T)
            if s in self.accept:
                T.add(other.start)
            return (s, frozenset(T))

        start = close(self.start, ())
        idx = {start: 0}
        trans = [None]
        acc = []
        work = [start]
        while work:
            p = work.pop()
            i = idx[p]
            row = {}
            for a in alpha:
                q = close(self.trans[p[0]][a], [other.trans[t][a] for t in p[1]])
                if q not in idx:
                    idx[q] = len(trans)
                    trans.append(None)
                    work.append(q)
                row[a] = idx[q]
            trans[i] = row
            if any(t in other.accept for t in p[1]):
                acc.append(i)
        return DFA(alpha, trans, 0, acc)

    def witness(self):
        """a shortest accepted string, or None if the language is empty"""
        seen = {self.start: ""}
        work = [self.start]
        while work:
            nxt = []
            for s in work:
                if s in self.accept:
                    return seen[s]
                for a in self.alphabet:
                    t = self.trans[s][a]
                    if t not in seen:
                        seen[t] = seen[s] + a
                        nxt.append(t)
            work = nxt
        return None

    def is_empty(self):
        return self.witness() is None

    def accepts(self, s):
        q = self.start
        for ch in s:
            q = self.trans[q][ch]
        return q in self.accept


def from_regex(alpha, rx, classes):
    """tiny regex -> DFA: concatenation of items `X`, `X?`, `X*`, `X+`, `(..|..)` groups, where X is
    a literal character or a class name in braces `{digit}` (classes: name -> set of symbols)"""
    pos = [0]

    def parse_alt():
        out = parse_seq()
        while pos[0] < len(rx) and rx[pos[0]] == "|":
            pos[0] += 1
            out = out.union(parse_seq())
        return out

    def parse_seq():
        out = DFA.epsilon(alpha)
        while pos[0] < len(rx) and rx[pos[0]] not in "|)":
            out = out.concat(parse_item())
        return out

    def parse_item():
        c = rx[pos[0]]
        if c == "(":
            pos[0] += 1
            atom = parse_alt()
            assert rx[pos[0]] == ")"
            pos[0] += 1
            chars = None
        elif c == "{":
            j = rx.index("}", pos[0])
            chars = classes[rx[pos[0] + 1:j]]
            pos[0] = j + 1
            atom = DFA.cls(alpha, chars)
        else:
            if c == "\\":
                pos[0] += 1
                c = rx[pos[0]]
            pos[0] += 1
            chars = {c}
            atom = DFA.cls(alpha, chars)
        if pos[0] < len(rx) and rx[pos[0]] in "?*+":
            op = rx[pos[0]]
            pos[0] += 1
            if op == "?":
                return atom.union(DFA.epsilon(alpha))
            star = DFA.cls_star(alpha, chars) if chars is not None else _star(atom)
            return star if op == "*" else atom.concat(star)
        return atom

    def _star(d):
        # generic star by iterating concat to a fixpoint is not needed for the grammars used here
        raise Undecided("star of a group is not supported in reference regexes")

    d = parse_alt()
    if pos[0] != len(rx):
        raise ValueError("regex parse error at %d in %s" % (pos[0], rx))
    return d


# ---------------------------------------------------------------------------------- evaluator

DIGITS = set("0123456789")


class _State:
    def __init__(self, order, cons):
        self.order = list(order)
        self.cons = dict(cons)

    def copy(self):
        return _State(self.order, self.cons)


class StrLang:
    def __init__(self, prog, crate, alphabet=None):
        self.prog = prog
        self.crate = crate
        self.alpha = tuple(alphabet or "05-+.eEx_a")
        self.cache = {}
        self.nseg = 0
        self.depth = 0

    # ---- helpers
    def body(self, name):
        bs = [b for b in self.prog.hir(self.crate).values() if b["name"] == name]
        if len(bs) != 1:
            raise Undecided("predicate %s not found among local functions" % name)
        return bs[0]

    def new_seg(self, st, dfa, at=None, replace=None):
        self.nseg += 1
        sid = self.nseg
        st.cons[sid] = dfa
        if replace is None:
            st.order.append(sid)
        return sid

    def charset(self, e, env):
        """set of alphabet symbols denoted by a pattern argument: a char literal, an array of
        chars, or a closure / path to a char predicate"""
        e = _strip(e)
        k = e.get("k")
        if k == "lit" and e.get("t") in ("char", "byte"):
            return {chr(e["v"])} & set(self.alpha) if chr(e["v"]) in self.alpha else self._unknown_char(chr(e["v"]))
        if k == "array":
            out = set()
            for x in e["es"]:
                out |= self.charset(x, env)
            return out
        if k == "closure":
            return set(a for a in self.alpha if self.char_pred(e, a))
        raise Undecided("pattern argument of kind %s" % k)

    def _unknown_char(self, c):
        raise Undecided("character %r is not in the analysis alphabet" % c)

    def char_pred(self, clo, a):
        """evaluate a closure |c| <bool expr over c> on alphabet symbol a"""
        params = clo["params"]
        if len(params) != 1:
            raise Undecided("character predicate with %d parameters" % len(params))
        names = [q["id"] for q in walk(params[0]) if q.get("k") == "bind"]
        return self.char_expr(clo["body"], {names[0]: a} if names else {})

    def char_expr(self, e, cenv):
        e = _strip(e)
        k = e.get("k")
        if k == "lit" and e.get("t") == "bool":
            return bool(e["v"])
        if k == "path" and e.get("res") and e["res"][0] == "local":
            return cenv[e["res"][2]]
        if k == "lit" and e.get("t") in ("char", "byte"):
            return chr(e["v"])
        if k == "un" and e.get("op") == "!":
            return not self.char_expr(e["a"], cenv)
        if k == "un" and e.get("op") in ("*", "&"):
            return self.char_expr(e["a"], cenv)
        if k == "bin" and e["op"] in ("&&", "||"):
            a = self.char_expr(e["a"], cenv)
            b = self.char_expr(e["b"], cenv)
            return (a and b) if e["op"] == "&&" else (a or b)
        if k == "bin" and e["op"] in ("==", "!=", "<", "<=", ">", ">="):
            a, b = self.char_expr(e["a"], cenv), self.char_expr(e["b"], cenv)
            a, b = self._ord(a), self._ord(b)
            return {"==": a == b, "!=": a != b, "<": a < b, "<=": a <= b, ">": a > b, ">=": a >= b}[e["op"]]
        if k == "mcall":
            c = self.char_expr(e["recv"], cenv)
            m = e["m"]
            if m == "is_ascii_digit":
                return c in DIGITS
            if m == "is_ascii_alphabetic":
                return c.isascii() and c.isalpha()
            if m == "is_ascii_alphanumeric":
                return c.isascii() and c.isalnum()
            if m == "is_ascii_hexdigit":
                return c in "0123456789abcdefABCDEF"
            raise Undecided("character method %s" % m)
        if k == "matches" or (k == "match" and e.get("src") == "normal"):
            c = self.char_expr(e["scrut"], cenv)
            for arm in e["arms"]:
                if self.char_pat(arm["pat"], c):
                    return self.char_expr(arm["body"], cenv)
            raise Undecided("no arm")
        raise Undecided("character expression of kind %s" % k)

    def _ord(self, c):
        # the representatives stand for classes: '5' for 1-9, 'x' for other ASCII letters
        return ord(c) if isinstance(c, str) else c

    def char_pat(self, p, c):
        k = p.get("k")
        if k == "_" or k == "bind":
            return True
        if k == "lit":
            return chr(p["v"]) == c
        if k == "range":
            lo, hi = p["lo"]["v"], p["hi"]["v"]
            return lo <= ord(c) <= hi if p.get("incl", True) else lo <= ord(c) < hi
        if k == "or":
            return any(self.char_pat(q, c) for q in p["pats"])
        if k == "ref":
            return self.char_pat(p["p"], c)
        raise Undecided("character pattern %s" % k)

    # ---- the language of a predicate
    def language(self, fn_name):
        if fn_name in self.cache:
            return self.cache[fn_name]
        self.depth += 1
        if self.depth > 6:
            raise Undecided("predicate recursion")
        hb = self.body(fn_name)
        if len(hb["params"]) != 1:
            raise Undecided("%s: a one-argument predicate is expected" % fn_name)
        st = _State([], {})
        sid = self.new_seg(st, DFA.all(self.alpha))
        env = {}
        self.bind(hb["params"][0], ("str", sid), env)
        acc = DFA.empty(self.alpha)
        for val, st2 in self.run_body(hb["body"], env, st):
            if val[0] == "ret":
                val = val[1]
            if val == ("bool", True):
                acc = acc.union(self.concat_of(st2))
            elif val != ("bool", False):
                raise Undecided("%s returns a non-boolean %s" % (fn_name, val[0]))
        self.depth -= 1
        self.cache[fn_name] = acc
        return acc

    def concat_of(self, st):
        d = DFA.epsilon(self.alpha)
        for sid in st.order:
            d = d.concat(st.cons[sid])
        return d

    def run_body(self, body, env, st):
        out = []
        try:
            for v, s in self.eval(body, dict(env), st):
                out.append((v, s))
        except _Ret as r:  # pragma: no cover  (returns are delivered through outcomes, see eval)
            out.extend(r.outcomes)
        return out

    # ---- multi-argument local predicates (e.g. valid_fractional_syntax(int, fract))
    def call_local(self, name, args, st):
        hb = self.body(name)
        if len(hb["params"]) != len(args):
            raise Undecided("arity of %s" % name)
        env = {}
        for p, a in zip(hb["params"], args):
            self.bind(p, a, env)
        return self.run_body(hb["body"], env, st)

    # ---- patterns
    def bind(self, p, v, env):
        k = p.get("k")
        if k == "bind":
            env[p["id"]] = v
            return True
        if k == "_":
            return True
        if k == "tuple":
            if v[0] != "tuple" or len(v[1]) != len(p["pats"]):
                raise Undecided("tuple pattern")
            return all(self.bind(q, x, env) for q, x in zip(p["pats"], v[1]))
        if k == "ref":
            return self.bind(p["p"], v, env)
        raise Undecided("pattern %s" % k)

    # ---- constraints on a segment; each returns a list of (bool, state)
    def constrain(self, st, sid, dfa):
        """fork on `segment in dfa`: [(True, st1), (False, st2)] (infeasible sides dropped)"""
        out = []
        cur = st.cons[sid]
        yes = cur.intersect(dfa)
        no = cur.minus(dfa)
        if not yes.is_empty():
            s1 = st.copy()
            s1.cons[sid] = yes
            out.append((True, s1))
        if not no.is_empty():
            s2 = st.copy()
            s2.cons[sid] = no
            out.append((False, s2))
        return out

    def split_first(self, st, sid, P, keep_rest_class=None):
        """X = p R with p in P at the start: returns (state, rest_sid) or None if impossible.
        Requires X's constraint to be of the `any string over a class` form (checked by trying)."""
        cur = st.cons[sid]
        head = DFA.cls(self.alpha, P)
        # the set of possible rests: { r | exists p in P: p r in cur }  (left quotient)
        rest = None
        P2 = set()
        for p in sorted(P):
            q = cur.trans[cur.start][p]
            d = DFA(cur.alphabet, cur.trans, q, cur.accept)
            if d.is_empty():
                continue
            P2.add(p)
            rest = d if rest is None else rest.union(d)
        if rest is None or rest.is_empty():
            return None
        P = P2
        head = DFA.cls(self.alpha, P)
        # soundness: cur restricted to strings starting in P must equal P . rest
        starts = cur.intersect(head.concat(DFA.all(self.alpha)))
        if not starts.product(head.concat(rest), "xor").is_empty():
            raise Undecided("prefix split of a segment whose constraint depends on the first character")
        s = st.copy()
        self.nseg += 1
        hid = self.nseg
        self.nseg += 1
        rid = self.nseg
        s.cons[hid] = head.intersect(_first_chars(cur, P, self.alpha))
        s.cons[rid] = rest
        i = s.order.index(sid)
        s.order[i:i + 1] = [hid, rid]
        del s.cons[sid]
        return s, rid

    # ---- expressions
    def eval(self, e, env, st):
        """-> list of (value, state).  `return` inside is turned into outcomes of the enclosing
        function by _Ret, collected in eval_fn_body."""
        return self._eval(e, env, st)

    def _eval(self, e, env, st):
        e = _strip(e)
        k = e.get("k")
        if k == "block":
            return self._block(e, env, st)
        if k == "lit" and e.get("t") == "bool":
            return [(("bool", bool(e["v"])), st)]
        if k == "lit" and e.get("t") in ("int", "usize", "u8", "i32") or (k == "lit" and isinstance(e.get("v"), int) and e.get("t") not in ("char", "byte", "bool")):
            return [(("int", e["v"]), st)]
        if k == "path":
            r = e.get("res")
            if r and r[0] == "local":
                if r[2] not in env:
                    raise Undecided("unknown local %s" % r[1])
                return [(env[r[2]], st)]
            raise Undecided("path %s" % (r,))
        if k == "ret":
            outs = self._eval(e["e"], env, st)
            return [(("ret", v), s) for v, s in outs]
        if k == "un" and e.get("op") == "!":
            return [self._not(v, s) for v, s in self._eval(e["a"], env, st)]
        if k == "un" and e.get("op") in ("*", "&"):
            return self._eval(e["a"], env, st)
        if k == "bin" and e["op"] in ("&&", "||"):
            out = []
            for v, s in self._eval(e["a"], env, st):
                if v[0] == "ret":
                    out.append((v, s))
                    continue
                if v[0] != "bool":
                    raise Undecided("non-boolean operand")
                if (e["op"] == "&&" and not v[1]) or (e["op"] == "||" and v[1]):
                    out.append((v, s))
                else:
                    out.extend(self._eval(e["b"], env, s))
            return out
        if k == "bin" and e["op"] in ("==", "!=", ">", ">=", "<", "<="):
            return self._cmp(e, env, st)
        if k == "if":
            return self._if(e, env, st)
        if k == "match" and e.get("src") in ("normal", None):
            return self._match(e, env, st)
        if k == "call":
            c = e.get("callee")
            if c and c[0] == "def" and c[1] in ("Fn", "AssocFn"):
                name = c[2]
                outs = [([], st)]
                for a in e["args"]:
                    nxt = []
                    for vals, s in outs:
                        for v, s2 in self._eval(a, env, s):
                            nxt.append((vals + [v], s2))
                    outs = nxt
                res = []
                for vals, s in outs:
                    if len(vals) == 1 and vals[0][0] == "str":
                        # one-argument predicate: constrain by its language
                        lang = self.language(name)
                        res.extend((("bool", b), s2) for b, s2 in self.constrain(s, vals[0][1], lang))
                    else:
                        for v, s2 in self.call_local(name, vals, s):
                            res.append((v[1] if v[0] == "ret" else v, s2))
                return res
            raise Undecided("call %s" % (c,))
        if k == "mcall":
            return self._mcall(e, env, st)
        if k == "tup":
            outs = [([], st)]
            for a in e["es"]:
                nxt = []
                for vals, s in outs:
                    for v, s2 in self._eval(a, env, s):
                        nxt.append((vals + [v], s2))
                outs = nxt
            return [(("tuple", vals), s) for vals, s in outs]
        raise Undecided("expression kind %s" % k)

    def _not(self, v, s):
        if v[0] == "ret":
            return (v, s)
        if v[0] != "bool":
            raise Undecided("`!` of a non-boolean")
        return (("bool", not v[1]), s)

    def _block(self, b, env, st):
        outs = [(None, st)]
        env = dict(env)
        # statements are evaluated for every live outcome; a `ret` value short-circuits
        live = [(env, st)]
        done = []
        for stmt in b.get("stmts") or []:
            nxt = []
            for en, s in live:
                k = stmt.get("k")
                if k == "slet":
                    for v, s2 in self._eval(stmt["init"], en, s):
                        if v[0] == "ret":
                            done.append((v, s2))
                            continue
                        en2 = dict(en)
                        if self._bind_refutable(stmt["pat"], v, en2):
                            nxt.append((en2, s2))
                        elif stmt.get("els") is not None:
                            for v3, s3 in self._eval(stmt["els"], en, s2):
                                if v3[0] != "ret":
                                    raise Undecided("let-else block falls through")
                                done.append((v3, s3))
                        else:
                            raise Undecided("refutable let without else")
                elif k in ("semi", "expr"):
                    for v, s2 in self._eval(stmt["e"], en, s):
                        if v[0] == "ret":
                            done.append((v, s2))
                        else:
                            nxt.append((en, s2))
                elif k == "if" or k == "match":
                    for v, s2 in self._eval(stmt, en, s):
                        if v[0] == "ret":
                            done.append((v, s2))
                        else:
                            nxt.append((en, s2))
                else:
                    raise Undecided("statement kind %s" % k)
            live = nxt
        out = list(done)
        for en, s in live:
            if b.get("expr") is None:
                out.append((("unit",), s))
            else:
                out.extend(self._eval(b["expr"], en, s))
        return out

    def _bind_refutable(self, p, v, env):
        k = p.get("k")
        if k == "tstruct" and str(p["res"][2]).endswith("Some"):
            if v[0] == "none":
                return False
            if v[0] != "some":
                raise Undecided("Some(..) pattern against %s" % v[0])
            return self._bind_refutable(p["subs"][0], v[1], env)
        if k in ("path", "tstruct") and str(p.get("res", ["", "", ""])[2]).endswith("None"):
            return v[0] == "none"
        if k == "tuple":
            if v[0] != "tuple":
                raise Undecided("tuple pattern against %s" % v[0])
            return all(self._bind_refutable(q, x, env) for q, x in zip(p["pats"], v[1]))
        return self.bind(p, v, env)

    def _if(self, e, env, st):
        c = e["cond"]
        out = []
        if c.get("k") == "let":
            for v, s in self._eval(c["init"], env, st):
                if v[0] == "ret":
                    out.append((v, s))
                    continue
                en2 = dict(env)
                if self._bind_refutable(c["pat"], v, en2):
                    out.extend(self._eval(e["then"], en2, s))
                elif e.get("else") is not None:
                    out.extend(self._eval(e["else"], env, s))
                else:
                    out.append((("unit",), s))
            return out
        for v, s in self._eval(c, env, st):
            if v[0] == "ret":
                out.append((v, s))
                continue
            if v[0] != "bool":
                raise Undecided("if condition is not boolean")
            if v[1]:
                out.extend(self._eval(e["then"], env, s))
            elif e.get("else") is not None:
                out.extend(self._eval(e["else"], env, s))
            else:
                out.append((("unit",), s))
        return out

    def _match(self, e, env, st):
        out = []
        for v, s in self._eval(e["scrut"], env, st):
            if v[0] == "ret":
                out.append((v, s))
                continue
            if v[0] in ("some", "none", "tuple"):
                hit = False
                for arm in e["arms"]:
                    if arm.get("guard") is not None:
                        raise Undecided("match guard")
                    en2 = dict(env)
                    if self._bind_refutable(arm["pat"], v, en2):
                        out.extend(self._eval(arm["body"], en2, s))
                        hit = True
                        break
                if not hit:
                    raise Undecided("no arm applies")
            elif v[0] == "str":
                out.extend(self._match_slice(e, v[1], env, s))
            elif v[0] == "bool":
                for arm in e["arms"]:
                    p = arm["pat"]
                    if p.get("k") == "_" or (p.get("k") == "lit" and bool(p["v"]) == v[1]):
                        out.extend(self._eval(arm["body"], env, s))
                        break
            else:
                raise Undecided("match on %s" % v[0])
        return out

    def _match_slice(self, e, sid, env, st):
        """match <bytes of segment> { [..] => .., } : arms are tried in order on a partition of
        the segment's language"""
        out = []
        remaining = [st]
        for arm in e["arms"]:
            if arm.get("guard") is not None:
                raise Undecided("match guard")
            p = arm["pat"]
            nxt = []
            for s in remaining:
                if p.get("k") == "_" or p.get("k") == "bind":
                    out.extend(self._eval(arm["body"], env, s))
                    continue
                if p.get("k") != "slice":
                    raise Undecided("pattern %s on bytes" % p.get("k"))
                if p.get("after"):
                    raise Undecided("slice pattern with trailing elements")
                heads = []
                for q in p["before"]:
                    heads.append(set(a for a in self.alpha if self.char_pat(q, a)))
                # language of the pattern: heads.. followed by (anything if mid else nothing)
                lang = DFA.epsilon(self.alpha)
                for h in heads:
                    lang = lang.concat(DFA.cls(self.alpha, h))
                if p.get("mid") is not None:
                    lang = lang.concat(DFA.all(self.alpha))
                for b, s2 in self.constrain(s, sid, lang):
                    if not b:
                        nxt.append(s2)
                        continue
                    en2 = dict(env)
                    cur_sid, s3 = sid, s2
                    for h in heads:
                        r = self.split_first(s3, cur_sid, h)
                        if r is None:
                            s3 = None
                            break
                        s3, cur_sid = r
                    if s3 is None:
                        continue
                    mid = p.get("mid")
                    if mid is not None and mid.get("k") == "bind":
                        en2[mid["id"]] = ("str", cur_sid)
                    out.extend(self._eval(arm["body"], en2, s3))
            remaining = nxt
        if remaining:
            # no arm: cannot happen for exhaustive matches unless the rest is infeasible
            for s in remaining:
                raise Undecided("non-exhaustive slice match")
        return out

    def _cmp(self, e, env, st):
        a, b = _strip(e["a"]), _strip(e["b"])
        # `x.len() == 0` / `x.len() > 0`
        for x, y, flip in ((a, b, False), (b, a, True)):
            if x.get("k") == "mcall" and x["m"] == "len" and y.get("k") == "lit" and y.get("v") == 0:
                op = e["op"]
                if flip:
                    op = {"<": ">", ">": "<", "<=": ">=", ">=": "<="}.get(op, op)
                out = []
                for v, s in self._eval(x["recv"], env, st):
                    if v[0] != "str":
                        raise Undecided("len() of a non-string")
                    for isempty, s2 in self.constrain(s, v[1], DFA.epsilon(self.alpha)):
                        res = {"==": isempty, "!=": not isempty, ">": not isempty, ">=": True, "<": False, "<=": isempty}[op]
                        out.append((("bool", res), s2))
                return out
        raise Undecided("comparison %s" % e["op"])

    def _mcall(self, e, env, st):
        m = e["m"]
        out = []
        for recv, s in self._eval(e["recv"], env, st):
            if recv[0] == "ret":
                out.append((recv, s))
                continue
            if recv[0] == "str":
                sid = recv[1]
                if m in ("as_bytes", "bytes", "chars", "iter", "as_str", "as_ref", "into_iter", "copied", "trim_start_matches_noop"):
                    out.append((recv, s))
                elif m == "is_empty":
                    out.extend((("bool", b), s2) for b, s2 in self.constrain(s, sid, DFA.epsilon(self.alpha)))
                elif m in ("all", "any"):
                    clo = _strip(e["args"][0])
                    if clo.get("k") == "closure":
                        C = set(a for a in self.alpha if self.char_pred(clo, a))
                    else:
                        raise Undecided("%s with a non-closure predicate" % m)
                    if m == "all":
                        out.extend((("bool", b), s2) for b, s2 in self.constrain(s, sid, DFA.cls_star(self.alpha, C)))
                    else:
                        notC = set(self.alpha) - C
                        out.extend((("bool", not b), s2) for b, s2 in self.constrain(s, sid, DFA.cls_star(self.alpha, notC)))
                elif m in ("starts_with", "ends_with"):
                    P = self.charset(e["args"][0], env)
                    lang = DFA.cls(self.alpha, P).concat(DFA.all(self.alpha)) if m == "starts_with" else DFA.all(self.alpha).concat(DFA.cls(self.alpha, P))
                    out.extend((("bool", b), s2) for b, s2 in self.constrain(s, sid, lang))
                elif m == "strip_prefix":
                    P = self.charset(e["args"][0], env)
                    lang = DFA.cls(self.alpha, P).concat(DFA.all(self.alpha))
                    for b, s2 in self.constrain(s, sid, lang):
                        if not b:
                            out.append((("none",), s2))
                        else:
                            r = self.split_first(s2, sid, P)
                            if r is not None:
                                out.append((("some", ("str", r[1])), r[0]))
                elif m == "split_once":
                    P = self.charset(e["args"][0], env)
                    notP = set(self.alpha) - P
                    nolang = DFA.cls_star(self.alpha, notP)
                    for b, s2 in self.constrain(s, sid, nolang):
                        if b:
                            out.append((("none",), s2))
                            continue
                        cur = s2.cons[sid]
                        # the segment must be `any string over a class C` apart from `contains a
                        # P`, so that the two halves are independent: A in (C-P)*, p in C&P, B in C*
                        before = s.cons[sid]
                        C = set(a for a in self.alpha if before.accepts(a))
                        if not before.product(DFA.cls_star(self.alpha, C), "xor").is_empty():
                            raise Undecided("split_once of a segment whose constraint is not a character-class star")
                        s3 = s2.copy()
                        ids = []
                        for d in (DFA.cls_star(self.alpha, C - P), DFA.cls(self.alpha, C & P), DFA.cls_star(self.alpha, C)):
                            self.nseg += 1
                            s3.cons[self.nseg] = d
                            ids.append(self.nseg)
                        i = s3.order.index(sid)
                        s3.order[i:i + 1] = ids
                        del s3.cons[sid]
                        out.append((("some", ("tuple", [("str", ids[0]), ("str", ids[2])])), s3))
                elif m == "trim_start_matches":
                    # X = H R with H in P* (as many as there are) and R not starting in P
                    P = self.charset(e["args"][0], env)
                    before = s.cons[sid]
                    C = set(a for a in self.alpha if before.accepts(a))
                    if not before.product(DFA.cls_star(self.alpha, C), "xor").is_empty():
                        raise Undecided("trim_start_matches of a segment whose constraint is not a character-class star")
                    s3 = s.copy()
                    self.nseg += 1
                    hid = self.nseg
                    self.nseg += 1
                    rid = self.nseg
                    s3.cons[hid] = DFA.cls_star(self.alpha, C & P)
                    s3.cons[rid] = DFA.epsilon(self.alpha).union(DFA.cls(self.alpha, C - P).concat(DFA.cls_star(self.alpha, C)))
                    i = s3.order.index(sid)
                    s3.order[i:i + 1] = [hid, rid]
                    del s3.cons[sid]
                    out.append((("str", rid), s3))
                else:
                    raise Undecided("string method %s" % m)
            elif recv[0] in ("some", "none"):
                if m == "unwrap_or":
                    if recv[0] == "some":
                        out.append((recv[1], s))
                    else:
                        out.extend(self._eval(e["args"][0], env, s))
                elif m == "is_some":
                    out.append((("bool", recv[0] == "some"), s))
                elif m == "is_none":
                    out.append((("bool", recv[0] == "none"), s))
                elif m in ("is_some_and", "is_none_or", "map_or"):
                    clo = _strip(e["args"][-1])
                    if clo.get("k") != "closure":
                        raise Undecided("%s with a non-closure" % m)
                    if recv[0] == "none":
                        if m == "map_or":
                            out.extend(self._eval(e["args"][0], env, s))
                        else:
                            out.append((("bool", m == "is_none_or"), s))
                    else:
                        en2 = dict(env)
                        if not self._bind_refutable(clo["params"][0], recv[1], en2):
                            raise Undecided("closure parameter pattern")
                        for v, s2 in self._eval(clo["body"], en2, s):
                            out.append((v[1] if v[0] == "ret" else v, s2))
                else:
                    raise Undecided("Option method %s" % m)
            elif recv[0] == "bool" and m == "then_some":
                raise Undecided("then_some")
            else:
                raise Undecided("method %s on %s" % (m, recv[0]))
        return out


class _Ret(Exception):
    def __init__(self, outcomes):
        self.outcomes = outcomes


def _strip(e):
    while isinstance(e, dict) and e.get("k") in ("paren", "drop_temps", "addr", "cast_noop"):
        e = e.get("e") or e.get("a")
    while isinstance(e, dict) and e.get("k") == "block" and not e.get("stmts") and e.get("expr") is not None and False:
        e = e["expr"]
    return e


def _first_chars(cur, P, alpha):
    return DFA.cls(alpha, set(p for p in P))


def language_of(prog, crate, fn_name, alphabet=None):
    sl = StrLang(prog, crate, alphabet)
    outs = sl.language(fn_name)
    return sl, outs
