"""Fact cache management: hash the repo sources, run the driver when needed, load JSON."""
import fcntl
import hashlib
import json
import os
import shutil
import subprocess
import sys
import time

VERIF = os.path.dirname(os.path.dirname(os.path.abspath(__file__)))
CACHE = os.path.join(VERIF, ".cache")
DRIVER = os.path.join(VERIF, "driver", "target", "release", "verif-driver")
CRATES = ["apollo_parser", "apollo_compiler", "apollo_smith"]
CRATE_DIRS = ["crates/apollo-parser", "crates/apollo-compiler", "crates/apollo-smith"]


def repo_dir():
    return os.environ.get("VERIF_REPO", "/repo")


def _source_files(repo):
    files = []
    for top in ["Cargo.toml", "Cargo.lock", "graphql.ungram"]:
        p = os.path.join(repo, top)
        if os.path.isfile(p):
            files.append(p)
    for cd in CRATE_DIRS:
        base = os.path.join(repo, cd)
        for name in ["Cargo.toml", "build.rs"]:
            p = os.path.join(base, name)
            if os.path.isfile(p):
                files.append(p)
        for root, dirs, fs in os.walk(os.path.join(base, "src")):
            dirs.sort()
            for f in sorted(fs):
                files.append(os.path.join(root, f))
    return sorted(files)


def tree_hash(repo):
    h = hashlib.sha256()
    for p in _source_files(repo):
        h.update(os.path.relpath(p, repo).encode())
        h.update(b"\0")
        with open(p, "rb") as fh:
            h.update(hashlib.sha256(fh.read()).digest())
    # the extractor is part of the key: a rebuilt driver re-extracts
    if os.path.isfile(DRIVER):
        with open(DRIVER, "rb") as fh:
            h.update(hashlib.sha256(fh.read()).digest())
    return h.hexdigest()[:24]


def ensure_facts(verbose=False):
    """Return (facts_dir, tree_hash, extracted_now, seconds)."""
    repo = repo_dir()
    if not os.path.isfile(DRIVER):
        print("ERROR: driver not built (run MANIFEST.setup_cmd)", file=sys.stderr)
        sys.exit(2)
    os.makedirs(CACHE, exist_ok=True)
    th = tree_hash(repo)
    lock_existed = os.path.isfile(os.path.join(repo, "Cargo.lock"))
    d = os.path.join(CACHE, "facts-" + th)
    lock = open(os.path.join(CACHE, "lock"), "w")
    fcntl.flock(lock, fcntl.LOCK_EX)
    try:
        if os.path.isfile(os.path.join(d, "OK")):
            os.utime(d, None)
            return d, th, False, 0.0
        t0 = time.time()
        tmp = d + ".tmp%d" % os.getpid()
        shutil.rmtree(tmp, ignore_errors=True)
        os.makedirs(tmp)
        r = subprocess.run(
            [os.path.join(VERIF, "driver", "run.sh"), repo, tmp],
            stdout=subprocess.PIPE,
            stderr=subprocess.STDOUT,
            text=True,
        )
        if r.returncode != 0:
            shutil.rmtree(tmp, ignore_errors=True)
            print("ERROR: fact extraction failed (the tree does not build?):", file=sys.stderr)
            print(r.stdout[-4000:], file=sys.stderr)
            sys.exit(2)
        # the tree must not have changed while we were extracting - except that cargo writes the
        # (git-ignored) Cargo.lock of a checkout that did not have one yet
        th2 = tree_hash(repo)
        if th2 != th:
            if not lock_existed and os.path.isfile(os.path.join(repo, "Cargo.lock")):
                th = th2
                d = os.path.join(CACHE, "facts-" + th)
            else:
                shutil.rmtree(tmp, ignore_errors=True)
                print("ERROR: sources changed during extraction", file=sys.stderr)
                sys.exit(2)
        with open(os.path.join(tmp, "OK"), "w") as fh:
            fh.write(th)
        shutil.rmtree(d, ignore_errors=True)
        os.rename(tmp, d)
        _evict(keep=d)
        return d, th, True, time.time() - t0
    finally:
        fcntl.flock(lock, fcntl.LOCK_UN)
        lock.close()


def _evict(keep, maxn=40):
    ents = []
    for n in os.listdir(CACHE):
        p = os.path.join(CACHE, n)
        if n.startswith("facts-") and os.path.isdir(p):
            if ".tmp" in n:
                # stale temp dir from a killed run
                if time.time() - os.path.getmtime(p) > 3600:
                    shutil.rmtree(p, ignore_errors=True)
                continue
            ents.append((os.path.getmtime(p), p))
    ents.sort(reverse=True)
    for _, p in ents[maxn:]:
        if p != keep:
            shutil.rmtree(p, ignore_errors=True)


def load(facts_dir, crate, kind):
    with open(os.path.join(facts_dir, "%s.%s.json" % (crate, kind))) as fh:
        return json.load(fh)
