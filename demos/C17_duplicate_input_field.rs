//! C17.REGISTRY 5.6.3 Input Object Field Uniqueness: `{ f(arg: {a: 1, a: 2}) }` must not validate.
//! Run as an example of apollo-compiler; exits 1 while no handler exists.
use apollo_compiler::ExecutableDocument;
use apollo_compiler::Schema;

fn main() {
    let schema = Schema::parse_and_validate(
        "input In { a: Int, b: In } type Query { f(arg: In): Int }",
        "schema.graphql",
    )
    .unwrap();
    let mut bad = 0;
    for (doc, valid) in [
        ("{ f(arg: {a: 1, a: 2}) }", false),
        ("{ f(arg: {b: {a: 1, a: 1}}) }", false),
        ("query($v: In = {a: 1, a: 2}) { f(arg: $v) }", false),
        ("{ f(arg: {a: 1, b: {a: 2}}) }", true),
    ] {
        let ok = ExecutableDocument::parse_and_validate(&schema, doc, "doc.graphql").is_ok();
        if ok != valid {
            bad += 1;
            println!("{doc}: validation {} but the document is {}", if ok { "succeeds" } else { "fails" }, if valid { "valid" } else { "invalid (duplicate input object field)" });
        }
    }
    if bad > 0 {
        std::process::exit(1);
    }
    println!("OK");
}
