//! C11.UNITS / C11.LINES: SourceFile::get_line_column must count columns in Unicode scalar values
//! and break lines at GraphQL LineTerminators (LF, CRLF, CR) only.
//! Run as an example of apollo-compiler; exits 1 on the unrepaired tree.
use apollo_compiler::parser::Parser;

fn main() {
    let mut bad = 0;
    // (source, substring to locate, expected line, expected column)
    let cases: &[(&str, &str, usize, usize)] = &[
        ("\"é中🚀\" x", "x", 1, 7),
        ("# form\u{000C}feed\ntype Query { a: Int }", "type", 2, 1),
        ("# ls\u{2028}ps\u{2029}nel\u{0085}vt\u{000B}\r\ntype Query { a: Int }", "type", 2, 1),
        ("type Query {\r  é: Int\r}", ": Int", 2, 4),
    ];
    for (src, needle, line, column) in cases {
        let doc = Parser::new().parse_ast(*src, "doc.graphql");
        let doc = match doc {
            Ok(d) => d,
            Err(e) => e.partial,
        };
        let file = doc.sources.values().next().unwrap();
        let offset = src.find(needle).unwrap();
        let lc = file.get_line_column(offset).unwrap();
        if (lc.line, lc.column) != (*line, *column) {
            bad += 1;
            println!("{src:?}: `{needle}` at byte {offset} reported at {}:{}, expected {line}:{column}", lc.line, lc.column);
        }
    }
    if bad > 0 {
        std::process::exit(1);
    }
    println!("OK");
}
