//! C10: "the same rule governs deserialization of names and numeric literals".
//! FloatValue::valid_syntax accepted an empty exponent (`1e`, `1.5E+`), found by C10.NUM
//! (language of the predicate, extracted from its HIR, vs the grammar's FloatValue).
//! Exits 0 when the property holds for these inputs.
use apollo_compiler::ast::FloatValue;
use apollo_compiler::ast::Value;

fn main() {
    let mut bad = 0;
    for text in ["0e", "1e", "1E+", "1.5e-", "-2.0E"] {
        let json = format!("\"{text}\"");
        match serde_json::from_str::<FloatValue>(&json) {
            Ok(value) => {
                // the value prints to text that is not a GraphQL literal
                let doc = format!("{{ f(x: {}) }}", Value::Float(value));
                let errors = apollo_compiler::ast::Document::parse(&doc, "d.graphql").is_err();
                println!("deserialized {text:?} as a FloatValue; `{doc}` parse error: {errors}");
                bad += 1;
            }
            Err(_) => {}
        }
    }
    for text in ["1e5", "1.5E+10", "0.0", "-2e-3", "1E0"] {
        let json = format!("\"{text}\"");
        if serde_json::from_str::<FloatValue>(&json).is_err() {
            println!("rejected valid float literal {text:?}");
            bad += 1;
        }
    }
    if bad > 0 {
        std::process::exit(1);
    }
    println!("OK");
}
