// Demonstration for the C21 known finding (copy to crates/apollo-compiler/examples/ and run
// `cargo run --example C21_fragment_chain_overflow -- 50 400`): aborts with
// "thread 'main' has overflowed its stack" (also in release mode with 99 490).
use apollo_compiler::{Schema, ExecutableDocument};
fn main() {
    let n: usize = std::env::args().nth(1).unwrap().parse().unwrap();
    let depth: usize = std::env::args().nth(2).unwrap().parse().unwrap();
    let schema = Schema::parse_and_validate("type Query { a: Query }", "s.graphql").unwrap();
    let mut q = String::from("query { ...F0 }\n");
    for i in 0..=n {
        q.push_str(&format!("fragment F{i} on Query {{ "));
        for _ in 0..depth { q.push_str("a { "); }
        if i < n { q.push_str(&format!("...F{}", i + 1)); } else { q.push_str("__typename"); }
        for _ in 0..depth { q.push_str(" }"); }
        q.push_str(" }\n");
    }
    let r = ExecutableDocument::parse_and_validate(&schema, q, "q.graphql");
    println!("n={n} depth={depth} -> {}", match r { Ok(_) => "ok".to_string(), Err(e) => format!("errors: {}", e.errors.len()) });
}
