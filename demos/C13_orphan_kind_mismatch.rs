use apollo_compiler::Schema;
fn errs(src: &str) -> Vec<String> {
    match Schema::parse(src, "s.graphql") { Ok(_) => vec![], Err(e) => e.errors.iter().map(|d| d.error.to_string()).collect() }
}
fn main() {
    println!("def first: {:?}", errs("type Query { a: Int } type X { a: Int } extend union X = Query"));
    println!("ext first: {:?}", errs("type Query { a: Int } extend union X = Query type X { a: Int }"));
}
