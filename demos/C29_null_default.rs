use apollo_compiler::{Schema, ExecutableDocument};
fn main() {
    let schema = Schema::parse_and_validate("type Query { f(nonNull: Int!): Int }", "s.graphql").unwrap();
    let r = ExecutableDocument::parse_and_validate(&schema, "query($v: Int = null) { f(nonNull: $v) }", "q.graphql");
    println!("{}", if r.is_ok() { "accepted" } else { "rejected" });
}
