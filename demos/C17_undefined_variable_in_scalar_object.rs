use apollo_compiler::{ExecutableDocument, Schema};
fn main() {
    let schema = Schema::parse_and_validate("scalar JSON type Query { f(arg: JSON): Int g(arg: [JSON]): Int }", "s.graphql").unwrap();
    let mut bad = 0;
    for q in [
        "{ f(arg: {k: $undefined}) }",
        "{ f(arg: [$undefined]) }",
        "{ f(arg: $undefined) }",
        "{ g(arg: [{k: $undefined}]) }",
        "query($v: Int) { f(arg: {k: 1}) }",
        "query($v: Int) { f(arg: {k: $v}) }",
    ] {
        let r = ExecutableDocument::parse_and_validate(&schema, q, "q.graphql");
        println!("{q} -> {}", match &r { Ok(_) => "valid".to_string(), Err(e) => e.errors.iter().map(|d| d.error.to_string()).collect::<Vec<_>>().join("; ") });
        if q.contains("$undefined") && r.is_ok() { bad += 1; }
    }
    if bad > 0 { std::process::exit(1); }
    println!("OK");
}
