// Demonstration for the C25 fix (copy to crates/apollo-compiler/examples/ and `cargo run --example`):
// before the fix prints "with fragment: accepted / expanded: rejected"; after: both rejected.
use apollo_compiler::{Schema, ExecutableDocument, introspection::check_max_depth};
fn check(schema: &apollo_compiler::validation::Valid<Schema>, q: &str) -> String {
    let doc = ExecutableDocument::parse_and_validate(schema, q, "q.graphql").unwrap();
    let op = doc.operations.get(None).unwrap();
    match check_max_depth(&doc, op) { Ok(()) => "accepted".into(), Err(_) => "rejected".into() }
}
fn main() {
    let schema = Schema::parse_and_validate("type Query { a: Int }", "s.graphql").unwrap();
    let with_frag = "query { __schema { types { ...F  fields { type { ...F } } } } } fragment F on __Type { fields { type { fields { name } } } }";
    let expanded = "query { __schema { types { fields { type { fields { name } } }  fields { type { fields { type { fields { name } } } } } } } }";
    println!("with fragment: {}", check(&schema, with_frag));
    println!("expanded     : {}", check(&schema, expanded));
}
