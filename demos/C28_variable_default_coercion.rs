//! C28: a defaulted variable conforms to its declared type like a provided one:
//! a single value for a list type is wrapped, input object fields take their defaults.
use apollo_compiler::request::coerce_variable_values;
use apollo_compiler::response::JsonMap;
use apollo_compiler::{ExecutableDocument, Schema};

fn main() {
    let schema = Schema::parse_and_validate(
        "input In { a: Int = 7 r: Int! l: [Int!] n: In } type Query { f(i: In, l: [Int], ll: [[Int]]): Int }",
        "s.graphql",
    )
    .unwrap();
    let cases = [
        ("query($v: [Int] = 1) { f(l: $v) }", "[1]"),
        ("query($v: [[Int]] = [1, [2]]) { f(ll: $v) }", "[[1],[2]]"),
        ("query($v: In = {r: 1}) { f(i: $v) }", r#"{"a":7,"r":1}"#),
        (
            "query($v: In = {r: 1, l: 5, n: {r: 2}}) { f(i: $v) }",
            r#"{"a":7,"r":1,"l":[5],"n":{"a":7,"r":2}}"#,
        ),
        ("query($v: [Int] = [1, 2]) { f(l: $v) }", "[1,2]"),
    ];
    let mut bad = 0;
    for (query, expected) in cases {
        let doc = ExecutableDocument::parse_and_validate(&schema, query, "q.graphql").unwrap();
        let operation = doc.operations.get(None).unwrap();
        // The same variable, once defaulted and once provided with the same value
        let defaulted = coerce_variable_values(&schema, operation, &JsonMap::new()).unwrap();
        let got: serde_json::Value =
            serde_json::from_str(&serde_json::to_string(defaulted.get("v").unwrap()).unwrap()).unwrap();
        let want: serde_json::Value = serde_json::from_str(expected).unwrap();
        if got != want {
            bad += 1;
            println!("{query}: defaulted $v = {got}, the declared type requires {want}");
        }
    }
    if bad > 0 {
        std::process::exit(1);
    }
    println!("OK");
}
