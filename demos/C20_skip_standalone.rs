use apollo_compiler::ast::Document;
fn main() {
    let doc = Document::parse("{ a @skip(if: true) }", "q.graphql").unwrap();
    match doc.validate_standalone_executable() { Ok(()) => println!("accepted"), Err(e) => println!("rejected: {}", e.to_string().lines().next().unwrap_or("")) }
}
