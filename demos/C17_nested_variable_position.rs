//! All Variable Usages Are Allowed (spec 5.8.5) applies to a variable used inside an input object
//! field or a list item as well: the expected type is the type of that position.
use apollo_compiler::{ExecutableDocument, Schema};
fn main() {
    let schema = Schema::parse_and_validate(
        "input In { a: Int b: [In!] r: Int! d: Int! = 4 } type Query { f(i: In, l: [Int!]): Int }",
        "s.graphql",
    )
    .unwrap();
    // (document, valid according to the specification / graphql-js)
    let cases = [
        ("query($i: In) { f(i: {r: 1, b: [$i]}) }", false),
        ("query($l: [Int]) { f(i: {r: 1, a: $l}) }", false),
        ("query($x: Int) { f(i: {r: $x}) }", false),
        ("query($x: Int) { f(l: [$x]) }", false),
        ("query($x: Int!) { f(i: {r: $x}) }", true),
        ("query($x: Int = 1) { f(i: {r: $x}) }", true),
        ("query($x: Int) { f(i: {r: 1, d: $x}) }", true),
        ("query($x: Int) { f(i: {r: 1, a: $x}) }", true),
        ("query($i: In!) { f(i: {r: 1, b: [$i]}) }", true),
    ];
    let mut bad = 0;
    for (doc, expected) in cases {
        let got = ExecutableDocument::parse_and_validate(&schema, doc, "q.graphql").is_ok();
        if got != expected {
            bad += 1;
            println!("MISMATCH {doc}: validates = {got}, specification says {expected}");
        }
    }
    if bad > 0 {
        std::process::exit(1);
    }
    println!("OK");
}
