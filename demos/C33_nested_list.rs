//! C33.NEST: a field of type [[Int!]] must be generated as a list of lists.
//! Run as an example of apollo-smith; exits 1 while generate_field_value flattens list nesting.
use apollo_compiler::ExecutableDocument;
use apollo_compiler::Schema;
use apollo_smith::ResponseBuilder;
use apollo_smith::Unstructured;

fn main() {
    let schema = Schema::parse_and_validate(
        "type Query { m: [[Int!]] o: [[T!]!]! } type T { x: Int }",
        "schema.graphql",
    )
    .unwrap();
    let doc = ExecutableDocument::parse_and_validate(&schema, "{ m o { x } }", "q.graphql").unwrap();
    let bytes: Vec<u8> = (0..4096u32).map(|i| (i * 31 % 251) as u8).collect();
    let mut u = Unstructured::new(&bytes);
    let value = ResponseBuilder::new(&mut u, &doc, &schema)
        .with_min_list_size(1)
        .build()
        .unwrap();
    let data = &value["data"];
    let mut bad = 0;
    for key in ["m", "o"] {
        let outer = data[key].as_array().expect("a list");
        if !outer.iter().all(|inner| inner.is_array()) {
            bad += 1;
            println!("{key}: declared as a list of lists but generated as {}", data[key]);
        }
    }
    if bad > 0 {
        std::process::exit(1);
    }
    println!("OK");
}
