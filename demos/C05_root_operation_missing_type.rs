use apollo_parser::Parser;
fn main() {
    for src in [
        "schema { query: }",
        "schema { query: Query mutation: }",
        "extend schema { query: }",
        "schema { query: Query }",
        "schema { query }",
    ] {
        let cst = Parser::new(src).parse();
        println!("{src:?}: {} errors", cst.errors().len());
    }
}
