use apollo_parser::Lexer;
fn main() {
    for src in ["\"\nabc\"", "\"a\nbc\"", "\"\rabc\"", "\"abc\""] {
        let (tokens, errors) = Lexer::new(src).lex();
        println!("{src:?}: {} tokens, {} errors", tokens.len(), errors.len());
    }
}
