//! C32: "the document generator ... returns a document that ... validates".
//! With DEFAULT limits and 64 KiB of pseudo-random input about 15 % of the generated documents
//! were rejected with "object type X implements interface Y more than once": an object type
//! extension could pick an interface the type already implements (C32.IMPLDUP:
//! object_type_definition passed `None` as the type being extended to additional_implements).
//! Exits 0 when every generated document validates.
use apollo_compiler::ast::Document as AstDocument;
use apollo_smith::DocumentBuilder;
use arbitrary::Unstructured;

fn main() {
    let mut failures = 0;
    let mut built = 0;
    let mut first: Option<(u64, String)> = None;
    for seed in 0..200u64 {
        let mut x = seed.wrapping_mul(0x9E3779B97F4A7C15) | 1;
        let mut bytes = vec![0u8; 65536];
        for b in bytes.iter_mut() {
            x ^= x << 13;
            x ^= x >> 7;
            x ^= x << 17;
            *b = (x >> 24) as u8;
        }
        let mut u = Unstructured::new(&bytes);
        let Ok(doc) = DocumentBuilder::new(&mut u).build() else { continue };
        built += 1;
        let text = String::from(doc);
        let Ok(ast) = AstDocument::parse(&text, "smith.graphql") else {
            failures += 1;
            continue;
        };
        if let Err(e) = ast.to_mixed_validate() {
            failures += 1;
            if first.is_none() {
                first = Some((seed, e.to_string().lines().take(1).collect::<Vec<_>>().join(" ")));
            }
        }
    }
    println!("built {built}, invalid {failures}, first: {first:?}");
    if failures > 0 {
        std::process::exit(1);
    }
    println!("OK");
}
