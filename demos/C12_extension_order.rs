//! Demonstrates the C12.EXTORDER findings against the real code: the serialized schema emits
//! extensions in first-occurrence order over chain(directives, interfaces, fields/values/members),
//! so re-parsing reorders the components of a later collection.
//! Run as an example of apollo-compiler: exits 1 while the defect is present.
use apollo_compiler::Schema;

fn names_of(schema: &Schema, ty: &str) -> Vec<String> {
    use apollo_compiler::schema::ExtendedType::*;
    match &schema.types[ty] {
        Object(t) => t.fields.keys().map(|n| n.to_string()).collect(),
        Interface(t) => t.fields.keys().map(|n| n.to_string()).collect(),
        Union(t) => t.members.iter().map(|n| n.name.to_string()).collect(),
        Enum(t) => t.values.keys().map(|n| n.to_string()).collect(),
        InputObject(t) => t.fields.keys().map(|n| n.to_string()).collect(),
        Scalar(_) => vec![],
    }
}

fn main() {
    let cases = [
        ("Q", "directive @d on OBJECT | INTERFACE | UNION | ENUM | INPUT_OBJECT\n type Query { x: Int } type Q { f: Int } extend type Q { a: Int } extend type Q @d { b: Int }"),
        ("I", "directive @d on OBJECT | INTERFACE | UNION | ENUM | INPUT_OBJECT\n type Query { x: Int } interface I { f: Int } extend interface I { a: Int } extend interface I @d { b: Int }"),
        ("U", "directive @d on OBJECT | INTERFACE | UNION | ENUM | INPUT_OBJECT\n type Query { x: Int } type A { x: Int } type B { x: Int } type C { x: Int } union U = A extend union U = B extend union U @d = C"),
        ("E", "directive @d on OBJECT | INTERFACE | UNION | ENUM | INPUT_OBJECT\n type Query { x: Int } enum E { F } extend enum E { A } extend enum E @d { B }"),
        ("In", "directive @d on OBJECT | INTERFACE | UNION | ENUM | INPUT_OBJECT\n type Query { x: Int } input In { f: Int } extend input In { a: Int } extend input In @d { b: Int }"),
    ];
    let mut bad = 0;
    for (ty, src) in cases {
        let schema = Schema::parse_and_validate(src, "a.graphql").expect("valid schema");
        let text = schema.to_string();
        let again = Schema::parse_and_validate(&text, "b.graphql").expect("serialized schema is valid");
        let (before, after) = (names_of(&schema, ty), names_of(&again, ty));
        if before != after {
            bad += 1;
            println!("{ty}: order {before:?} became {after:?} after serialize + parse");
        }
    }
    if bad > 0 {
        std::process::exit(1);
    }
    println!("OK");
}
