//! Property check: every document produced by `DocumentBuilder::build` parses
//! without syntax errors and validates as a combined schema + executable
//! document, and the same bytes always give the same document.
//!
//! The per-kind maximums are kept small so that the input bytes are not used
//! up by the 50-per-kind defaults before the builder reaches the schema
//! definition and the operations: every generator clause sees real entropy.

use apollo_compiler::ast::Document as AstDocument;
use apollo_smith::DocumentBuilder;
use arbitrary::Unstructured;

/// Deterministic xorshift byte stream.
fn bytes(seed: u64, len: usize) -> Vec<u8> {
    let mut s = seed.wrapping_mul(0x9E37_79B9_7F4A_7C15) ^ 0xD1B5_4A32_D192_ED03;
    (0..len)
        .map(|_| {
            s ^= s << 13;
            s ^= s >> 7;
            s ^= s << 17;
            (s >> 24) as u8
        })
        .collect()
}

fn generate(data: &[u8]) -> Option<String> {
    let mut u = Unstructured::new(data);
    DocumentBuilder::new(&mut u)
        .max_scalar_types(2)
        .max_enum_types(2)
        .max_interface_types(2)
        .max_object_types(6)
        .max_union_types(2)
        .max_input_object_types(3)
        .max_fragment_definitions(3)
        .max_directive_definitions(2)
        .max_operation_definitions(3)
        .build()
        .ok()
        .map(String::from)
}

fn main() {
    const SEEDS: u64 = 600;
    const LEN: usize = 64 * 1024;

    let (mut valid, mut exhausted, mut with_extra_roots) = (0u32, 0u32, 0u32);
    let mut failures = Vec::new();
    for seed in 0..SEEDS {
        let data = bytes(seed, LEN);
        let Some(doc) = generate(&data) else {
            // The generator reported that the input is exhausted / unusable.
            exhausted += 1;
            continue;
        };
        assert_eq!(
            Some(&doc),
            generate(&data).as_ref(),
            "seed {seed}: same bytes produced two different documents"
        );
        if doc.contains("\n  mutation: ") || doc.contains("\n  subscription: ") {
            with_extra_roots += 1;
        }
        let ast = match AstDocument::parse(&doc, "smith.graphql") {
            Ok(ast) => ast,
            Err(e) => {
                failures.push(format!("seed {seed}: syntax errors\n{}", e.errors));
                continue;
            }
        };
        match ast.to_mixed_validate() {
            Ok(_) => valid += 1,
            Err(errors) => failures.push(format!("seed {seed}: validation errors\n{errors}")),
        }
    }

    println!(
        "valid={valid} exhausted={exhausted} invalid={} (documents with mutation/subscription roots: {with_extra_roots})",
        failures.len()
    );
    // Make sure the sweep actually exercises the interesting part of the generator.
    assert!(valid > 100, "too few documents were generated");
    if !failures.is_empty() {
        for f in failures.iter().take(3) {
            eprintln!("{f}");
        }
        eprintln!("{} generated document(s) are not valid", failures.len());
        std::process::exit(1);
    }
    println!("OK");
}
