//! C05: "A document parses without errors if and only if it belongs to the October 2021 grammar".
//! SchemaExtension is `extend schema Directives? { RootOperationTypeDefinition+ }` or
//! `extend schema Directives`; `extend schema @d { }` was accepted (found by C05.NONEMPTY's
//! zero-iteration walk of schema_extension: the `requirement met` flag was already set by the
//! directives).  Exits 0 when every input gets the expected verdict.
use apollo_parser::Parser;

fn main() {
    let mut bad = 0;
    for (src, valid) in [
        ("extend schema @d {}", false),
        ("extend schema @d { }", false),
        ("extend schema {}", false),
        ("extend schema", false),
        ("extend schema @d", true),
        ("extend schema { query: Q }", true),
        ("extend schema @d { query: Q mutation: M }", true),
    ] {
        let n = Parser::new(src).parse().errors().count();
        if (n == 0) != valid {
            println!("{src:?}: {n} errors, expected {}", if valid { "none" } else { "at least one" });
            bad += 1;
        }
    }
    if bad > 0 {
        std::process::exit(1);
    }
    println!("OK");
}
