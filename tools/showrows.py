#!/usr/bin/env python3
"""Debug helper: print region decision rows (edge facts -> diagnostics pushed) of a function:
the whole function with loops cut, and each `for` loop body separately.
usage: tools/showrows.py <fn-regex> [crate]"""
import os
import sys

sys.path.insert(0, os.path.dirname(os.path.dirname(os.path.abspath(__file__))))
from analyzer import facts as F  # noqa: E402
from analyzer.core import Program  # noqa: E402
from analyzer.diag import region_rows  # noqa: E402
from analyzer.flow import derives, loop_headers  # noqa: E402


def main():
    d, _, _, _ = F.ensure_facts()
    prog = Program(d, sys.argv[2:] or None) if len(sys.argv) > 2 else Program(d)
    for fn in prog.fns_matching(sys.argv[1]):
        print("===", fn.name)
        hs = loop_headers(fn)
        regions = [("whole", 0, list(hs))] + [("loop@%d over %s" % (h, sorted(derives(fn, v[2].args[0])[0])[:4]), v[0], [h]) for h, v in sorted(hs.items())]
        for label, start, stops in regions:
            print(" --", label)
            try:
                for facts, pushed, calls, path in region_rows(fn, start, stops):
                    print("    ", facts, "=>", pushed, "end@%d" % path[-1])
            except Exception as e:  # noqa: BLE001
                print("     !!", e)


if __name__ == "__main__":
    main()
