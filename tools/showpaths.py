#!/usr/bin/env python3
"""Debug helper: print the enumerated CFG paths (edge facts + return value) of one function.
usage: tools/showpaths.py <fn-regex> [crate ...]"""
import os
import sys

sys.path.insert(0, os.path.dirname(os.path.dirname(os.path.abspath(__file__))))
from analyzer import facts as F  # noqa: E402
from analyzer.core import Program  # noqa: E402
from analyzer.flow import _strip  # noqa: E402
from analyzer.tables import enum_paths, return_value_on_path  # noqa: E402


def main():
    d, _, _, _ = F.ensure_facts()
    prog = Program(d, sys.argv[2:] or None) if len(sys.argv) > 2 else Program(d)
    for fn in prog.fns_matching(sys.argv[1]):
        print("===", fn.name, fn.uid)
        try:
            for atoms, rb, path in enum_paths(fn):
                print("  ", _strip(atoms), "=>", return_value_on_path(fn, path))
        except Exception as e:  # noqa: BLE001
            print("   !!", e)


if __name__ == "__main__":
    main()
