#!/usr/bin/env python3
"""usage: refactor_prompt.py <ID> <area description...>
Creates the scratch worktree /tmp/seed/<ID> and prints the prompt for a sub-agent that writes
BEHAVIOUR-PRESERVING refactorings (used to test that the checks stay silent on correct code)."""
import os
import subprocess
import sys

TEMPLATE = """You are working alone in a scratch git worktree of the Rust repository apollographql/apollo-rs
(crates apollo-parser, apollo-compiler, apollo-smith) at {wt} . Work ONLY inside {wt} and write your
deliverables to {out} . Do not read or write anything under /verif or /repo. Never run `git stash`.
There is no network: always pass --offline to cargo and set CARGO_TARGET_DIR={wt}/target for every
cargo command; other builds run on this machine, so use `-j 6` and `--test-threads 6`.

Your task: produce a set of BEHAVIOUR-PRESERVING refactorings of the library code in this area:

    {area}

The goal is realistic maintenance churn that changes how the code is written but not what it does
for any input: renaming local variables and private helper functions, extracting a block into a
private helper function (or inlining a small private helper), reordering independent statements,
rewriting `if let .. else` as `match` (or the reverse), `let .. else` as `match` with early return,
replacing a `for` loop by the equivalent iterator chain or the reverse, flipping an `if` with its
negated condition, introducing a named temporary, replacing `x.is_some()` + `unwrap` idioms by
`if let`, moving a private function to another place in the same file, adding comments. Do NOT change
public APIs, error messages, diagnostics, the order of side effects, token/consumption order,
numeric limits, or any observable output. Touch 6 to 12 different functions, with at least a few
changes in the functions that carry the core logic of the area (not only trivial getters).

Requirements:
  (a) `cargo build --workspace --offline` succeeds without new warnings;
  (b) the full test suite passes unedited:
      `cargo nextest run --workspace --no-fail-fast --test-threads 6 --offline` (369 tests);
  (c) you are confident, function by function, that behaviour is identical for every input.

Deliverables in {out}:
  patch.diff - `git diff` of your changes (source only), applying cleanly with `git apply`;
  notes.md   - a list of every refactoring (file, function, what kind), and the test result.
When done, restore the worktree (`git checkout -- .`) and reply with a 5-line summary.
"""


def main():
    rid = sys.argv[1]
    area = " ".join(sys.argv[2:])
    wt = "/tmp/seed/%s" % rid
    out = "/tmp/seed/%s-out" % rid
    os.makedirs(out, exist_ok=True)
    if not os.path.isdir(wt):
        subprocess.check_call(["git", "-C", "/repo", "worktree", "add", "--detach", "-q", wt, "HEAD"])
    print(TEMPLATE.format(wt=wt, out=out, area=area))


if __name__ == "__main__":
    main()
