#!/bin/bash
# validates MANIFEST.json and every evidence file against the given schemas
python3-vt - <<'PY'
import json,jsonschema,glob
m=json.load(open('/verif/MANIFEST.json')); jsonschema.validate(m,json.load(open('/root/.vp/MANIFEST.schema.json'))); print('manifest ok', len(m['checks']), 'checks')
s=json.load(open('/root/.vp/EVIDENCE.schema.json'))
for f in sorted(glob.glob('/verif/evidence/C*.json')):
    jsonschema.validate(json.load(open(f)),s)
print('evidence ok')
PY
