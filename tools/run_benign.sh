#!/bin/bash
# usage: run_benign.sh [REPO_COPY]
# The other half of the seed regression: every /verif/benign/<id>/patch.diff is a reviewed
# BEHAVIOUR-PRESERVING refactoring of the repository (written by an independent sub-agent, full test
# suite passing).  Each is applied to a scratch worktree and ALL checks are run against it with
# VERIF_REPO; any exit != 0 is a false alarm of the machinery.  Prints QUIET / ALARM per set.
set -u
VERIF=$(cd "$(dirname "$0")/.." && pwd)
W=${1:-/tmp/seed/regress}
if [ ! -d "$W" ]; then git -C /repo worktree add --detach -q "$W" HEAD || exit 2; fi
cd "$W" && git checkout -q -- . && git checkout -q --detach "$(git -C /repo rev-parse HEAD)"
export VERIF_REPO=$W
PIDS=$(python3 -c "import json; print(' '.join(c['property_id'] for c in json.load(open('$VERIF/MANIFEST.json'))['checks']))")
alarms=0
for d in "$VERIF"/benign/*/; do
  id=$(basename "$d")
  cd "$W"; git checkout -q -- .
  if ! git apply --check "$d/patch.diff" 2>/dev/null; then echo "SKIP  $id (patch does not apply to HEAD)"; continue; fi
  git apply "$d/patch.diff"
  bad=""
  for p in $PIDS; do
    out=$(cd "$VERIF" && ./check "$p" 2>&1); rc=$?
    if [ $rc -ne 0 ]; then bad="$bad $p"; echo "$out" | grep -E '^  C[0-9]+\.|CHECK-FAILED' | head -3 | cut -c1-220; fi
  done
  if [ -z "$bad" ]; then echo "QUIET $id"; else echo "ALARM $id:$bad"; alarms=$((alarms+1)); fi
  git checkout -q -- .
done
echo "benign sets with alarms: $alarms"
[ $alarms -eq 0 ]
