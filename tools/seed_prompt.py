#!/usr/bin/env python3
"""usage: seed_prompt.py <PID> <N> [hint...]
Creates the scratch worktree /tmp/seed/<PID>-<N> (detached at /repo HEAD) and the output directory
/tmp/seed/<PID>-<N>-out, and prints the prompt handed to an independent sub-agent: only the
property's text and anchors, the worktree path and the deliverables.  Nothing from /verif."""
import json
import os
import subprocess
import sys

VERIF = os.path.dirname(os.path.dirname(os.path.abspath(__file__)))

TEMPLATE = """You are working alone in a scratch git worktree of the Rust repository apollographql/apollo-rs
(crates apollo-parser, apollo-compiler, apollo-smith) at {wt} . Work ONLY inside {wt} and write your
deliverables to {out} . Do not read or write anything under /verif or /repo. Never run `git stash`
(the stash is shared between worktrees). There is no network: always pass --offline to cargo and
set CARGO_TARGET_DIR={wt}/target for every cargo command. Other builds are running on this machine,
so limit yourself to `-j 6` for cargo builds and `--test-threads 6` for tests.

Here is a semantic property the library is supposed to satisfy for ALL inputs (JSON, as given):

{prop}

Your task: design ONE realistic source change to the library code (under crates/*/src, not tests,
not test data, not snapshots) that BREAKS this property, while
  (a) the workspace still compiles (`cargo build --workspace --offline`), and
  (b) the existing test suite still passes completely and unedited:
      `cargo nextest run --workspace --no-fail-fast --test-threads 6 --offline`
      (369 tests; if nextest is unavailable: `cargo test --workspace --no-fail-fast --offline`).
The change should look like something a maintainer could plausibly commit (a refactor, an
"optimisation", a simplification, an off-by-one, a dropped or reordered step, a wrong branch,
a copy-paste slip between two sibling functions) - not sabotage that ordinary use would reveal at
once. Prefer a change that needs something SPECIFIC to manifest: an unusual input, a multi-step
sequence of operations, a rarely taken path, a particular interleaving, or two cooperating sites
that each look fine alone. Keep it small (typically 1-25 changed lines).{hint}

Then write a demonstration: a small Rust example program (a `fn main()` that uses only the public
API of the crate, placed in crates/<package>/examples/<name>.rs while you test it) that exits 0
and prints OK when the property holds for its inputs, and exits non-zero (assertion failure, panic,
or explicit `std::process::exit(1)`) when it is violated. It must FAIL with your change applied
and PASS on the unmodified checkout. Verify both yourself, and verify (a) and (b) with the change
applied.

Deliverables, all in {out}:
  patch.diff  - `git diff` of your source change ONLY (no example file, no test changes), applying
                cleanly with `git apply` to the unmodified checkout;
  demo.rs     - the demonstration program;
  notes.md    - which file/function you changed and how; which clause of the property breaks; what
                the change needs in order to manifest; the package and example name to use for
                demo.rs; the exact commands you ran and their outcomes (test counts).
When done, restore the worktree (`git checkout -- .`; remove your example file) so that it is clean,
and reply with a 5-line summary (change, clause, what it needs, package/example name, test result).
"""


def main():
    pid, n = sys.argv[1], sys.argv[2]
    hint = " ".join(sys.argv[3:])
    sid = "%s-%s" % (pid, n)
    wt = "/tmp/seed/%s" % sid
    out = "/tmp/seed/%s-out" % sid
    os.makedirs("/tmp/seed", exist_ok=True)
    os.makedirs(out, exist_ok=True)
    if not os.path.isdir(wt):
        subprocess.check_call(["git", "-C", "/repo", "worktree", "add", "--detach", "-q", wt, "HEAD"])
    prop = None
    for line in open(os.path.join(VERIF, "properties.jsonl")):
        p = json.loads(line)
        if p["id"] == pid:
            prop = p
    keep = {k: prop[k] for k in ("title", "statement", "quantifier", "why_tests_cant", "anchors")}
    h = ("\nAdditional steer: " + hint) if hint else ""
    print(TEMPLATE.format(wt=wt, out=out, prop=json.dumps(keep, indent=1), hint=h))


if __name__ == "__main__":
    main()
