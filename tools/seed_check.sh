#!/bin/bash
# usage: seed_check.sh <patch.diff> [pid ...]   -- applies the patch to /repo, runs the checks, reverts
set -u
PATCH=$1; shift
cd /repo || exit 2
if [ -n "$(git status --porcelain)" ]; then echo "/repo not clean"; exit 2; fi
git apply "$PATCH" || { echo "patch does not apply"; exit 2; }
trap 'git -C /repo checkout -- . ; git -C /repo clean -fdq crates 2>/dev/null' EXIT
cd /verif
PIDS="$@"
if [ -z "$PIDS" ]; then PIDS=$(python3 -c "import json; print(' '.join(c['property_id'] for c in json.load(open('/verif/MANIFEST.json'))['checks']))"); fi
for p in $PIDS; do
  out=$(./check $p 2>&1); rc=$?
  echo "== $p exit=$rc $(echo "$out" | tail -1)"
  echo "$out" | grep -E "^  C[0-9]+\.|CHECK-FAILED" | cut -c1-260
done
