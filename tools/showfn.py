#!/usr/bin/env python3
"""debug helper: pretty-print MIR-lite of functions matching a regex"""
import sys, os, json
sys.path.insert(0, os.path.dirname(os.path.dirname(os.path.abspath(__file__))))
from analyzer import facts as F
from analyzer.core import Program, proj_str

def pl(p):
    s = "_%d" % p[0]
    for e in proj_str(p[1]):
        s += "." + e
    return s
def op(o):
    if o[0] in "cm": return ("move " if o[0]=="m" else "") + pl(o[1])
    if o[0]=="k":
        ex=o[3]
        if ex.get("fn_name"): return "fn:"+ex["fn_name"]
        return "const %s" % (o[2][:60])
    return str(o)
def rv(r):
    k=r[0]
    if k=="use": return op(r[1])
    if k=="ref": return "&%s %s"%(r[1],pl(r[2]))
    if k=="raw": return "&raw %s"%pl(r[2])
    if k=="cast": return "%s as %s (%s)"%(op(r[2]),r[3],r[1])
    if k=="bin": return "%s(%s, %s)"%(r[1],op(r[2]),op(r[3]))
    if k=="un": return "%s(%s)"%(r[1],op(r[2]))
    if k=="discr": return "discr(%s) [%s]"%(pl(r[1]), r[2])
    if k=="agg":
        kd=r[1]
        if isinstance(kd,list):
            if kd[0]=="adt": nm="%s::%s"%(kd[1].split("::")[-1],kd[2])
            else: nm="%s %s"%(kd[0],kd[1])
        else: nm=kd
        return "%s{%s}"%(nm,", ".join(op(x) for x in r[2]))
    return str(r)
def main():
    d,_,_,_=F.ensure_facts()
    prog=Program(d)
    for f in prog.fns_matching(sys.argv[1]):
        print("=== %s [%s] %s:%d-%d argc=%d"%(f.name,f.uid,f.file,f.line_lo,f.line_hi,f.argc))
        for i,l in enumerate(f.locals):
            print("   _%d: %s %s"%(i,l[0],l[1] or ""))
        live=f.live_blocks()
        for b,blk in enumerate(f.blocks):
            if b not in live and "-a" not in sys.argv: continue
            print(" bb%d%s:"%(b," (cleanup)" if blk["c"] else ""))
            for s in blk["s"]:
                if s[0]=="=": print("    %s = %s   ; L%d"%(pl(s[1]),rv(s[2]),s[3][0]))
                elif s[0]=="sd": print("    dead _%d"%s[1])
                elif s[0]=="sl": pass
                else: print("    ",s)
            t=blk["t"]
            if t[0]=="call":
                c=t[1]
                print("    %s = CALL %s(%s) -> bb%s unw %s  [%s] ; L%d"%(pl(t[3]), c.get("name") or c.get("orig_name") or c.get("kind"), ", ".join(op(a) for a in t[2]), t[4], t[5], c.get("kind"), t[6][0]))
            elif t[0]=="switch":
                print("    SWITCH %s %s else bb%d"%(op(t[1]), ["%s->bb%d"%(v,x) for v,x in t[2]], t[3]))
            elif t[0]=="drop": print("    DROP %s : %s -> bb%d"%(pl(t[1]),t[2],t[3]))
            elif t[0]=="assert": print("    ASSERT %s==%s %s -> bb%d"%(op(t[1]),t[2],t[3],t[4]))
            else: print("    ",t)
main()
