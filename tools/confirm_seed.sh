#!/bin/bash
# usage: confirm_seed.sh <ID> <package> <example-name> [extra run args]
# Confirms in the scratch worktree /tmp/seed/<ID>: tests pass with the change, demo fails with it and passes without.
ID=$1; PKG=$2; EX=$3; shift 3
W=/tmp/seed/$ID; O=/tmp/seed/$ID-out
export CARGO_TARGET_DIR=$W/target CARGO_NET_OFFLINE=true
cd $W || exit 2
{
git checkout -q -- . ; git apply $O/patch.diff || { echo "PATCH DOES NOT APPLY"; exit 2; }
mkdir -p crates/$PKG/examples; cp $O/demo.rs crates/$PKG/examples/$EX.rs
echo "=== demo WITH change"; cargo run --offline -q -p $PKG --example $EX -- "$@" 2>&1 | tail -15; echo "exit=${PIPESTATUS[0]}"
git apply -R $O/patch.diff
echo "=== demo WITHOUT change"; cargo run --offline -q -p $PKG --example $EX -- "$@" 2>&1 | tail -8; echo "exit=${PIPESTATUS[0]}"
git apply $O/patch.diff
rm -f crates/$PKG/examples/$EX.rs
echo "=== test suite WITH change"; cargo nextest run --workspace --no-fail-fast --test-threads 8 --offline 2>&1 | tail -4
} > $O/confirm.log 2>&1
echo done >> $O/confirm.log
