#!/usr/bin/env python3
"""usage: keep_seed.py <SID> <package> <example> <caught_by or MISSED> -- <needs_to_manifest> -- <change summary>
Copies /tmp/seed/<SID>-out/{patch.diff,demo.rs,notes.md,confirm.log} to /verif/seeded/<SID>/ and
writes meta.json after checking the confirmation log (demo fails with the change, passes without,
suite passes with it)."""
import json
import os
import re
import shutil
import sys

VERIF = os.path.dirname(os.path.dirname(os.path.abspath(__file__)))


def main():
    args = sys.argv[1:]
    sid, pkg, ex = args[0], args[1], args[2]
    rest = " ".join(args[3:]).split(" -- ")
    caught, needs, change = rest[0], rest[1], rest[2]
    src = "/tmp/seed/%s-out" % sid
    log = open(os.path.join(src, "confirm.log")).read()
    m = re.search(r"=== demo WITH change(.*?)exit=(\d+).*?=== demo WITHOUT change(.*?)exit=(\d+).*?=== test suite WITH change(.*)", log, re.S)
    if not m:
        sys.exit("confirm.log incomplete for %s" % sid)
    with_rc, without_rc = int(m.group(2)), int(m.group(4))
    summ = re.search(r"Summary.*?(\d+) tests run: (\d+) passed(?:, (\d+) failed)?", m.group(5))
    if not summ:
        sys.exit("no test summary for %s" % sid)
    ok = with_rc != 0 and without_rc == 0 and summ.group(1) == summ.group(2) and not summ.group(3)
    if not ok:
        sys.exit("seed %s NOT confirmed: demo with=%d without=%d tests=%s" % (sid, with_rc, without_rc, summ.group(0)))
    dst = os.path.join(VERIF, "seeded", sid)
    os.makedirs(dst, exist_ok=True)
    for f in ("patch.diff", "demo.rs", "notes.md", "confirm.log"):
        shutil.copy(os.path.join(src, f), os.path.join(dst, f))
    pid = sid.split("-")[0]
    meta = {
        "id": sid,
        "property": pid,
        "breaks": pid,
        "needs_to_manifest": needs,
        "change": change,
        "demonstration": "crates/%s/examples/%s.rs (= demo.rs)" % (pkg, ex),
        "caught_by": [] if caught == "MISSED" else [c.strip() for c in caught.split(";")],
        "missed_initially": caught == "MISSED",
        "source": "independent sub-agent given only the property text, its anchored file list and a scratch worktree (nothing from /verif)",
        "confirmed": {
            "compiles_and_suite_passes_with_change": "cargo nextest run --workspace --offline: %s (run by me in the scratch worktree)" % summ.group(0),
            "demo_fails_with_change_passes_without": True,
            "demo_exit_with_change": with_rc,
            "log": "confirm.log",
        },
        "checks_run": "tools/seed_check.sh <patch> (git apply to /repo, ./check <pid>, git checkout)",
    }
    with open(os.path.join(dst, "meta.json"), "w") as fh:
        json.dump(meta, fh, indent=1)
    print("kept", dst)


if __name__ == "__main__":
    main()
