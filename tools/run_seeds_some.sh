#!/bin/bash
# usage: run_seeds_some.sh <worktree> ID...
# Like run_seeds.sh, for a chosen subset of the kept seeded changes (the full regression takes
# hours because fact extraction is serialised by the cache lock).
VERIF=$(cd "$(dirname "$0")/.." && pwd); W=$1; shift
cd "$W" && git checkout -q -- . && git checkout -q --detach "$(git -C /repo rev-parse HEAD)"
export VERIF_REPO=$W
for id in "$@"; do
  d=$VERIF/seeded/$id; pid=${id%-*}
  cd "$W"; git checkout -q -- .
  if ! git apply --check "$d/patch.diff" 2>/dev/null; then echo "SKIP   $id"; continue; fi
  git apply "$d/patch.diff"
  out=$(cd "$VERIF" && ./check "$pid" 2>&1); rc=$?
  if [ $rc -eq 1 ]; then echo "CAUGHT $id: $(echo "$out" | grep -E '^  C[0-9]+\.|CHECK-FAILED' | head -1 | cut -c1-150)"; else echo "MISSED $id (exit $rc): $(echo "$out" | tail -1)"; fi
  git checkout -q -- .
done
echo DONE
