#!/usr/bin/env python3
"""Generate /verif/MANIFEST.json from the table below (the single source of truth for which
properties are claimed)."""
import json
import os

VERIF = os.path.dirname(os.path.dirname(os.path.abspath(__file__)))

# pid -> (category, text, note, technique, has_thorough)
CLAIMED = {
    "C01": ("other",
            "Static decision of the structural clauses: every recursive cycle of the parser passes a recursion-limit check (stack clause), no loop path can spin without consuming input, entry functions open their root first, pop is guarded; the lexer machine (shared with C03) decides that the lexer rejects exactly the escapes on which the string decoder, run by the compiler's parse entry points, would panic (including the surrogate range). A rule over all CFG paths / call-graph cycles covers nesting combinations no fixture contains.",
            "Decides recursion depth <= limit (+constant), absence of non-progressing loop paths (including by token kind), root typestate and guarded pop; the thorough tier adds the reviewed inventory of all 36 panic-capable sites reachable from the parse/lex entries (32 rows, each with a discharge class; a site outside the table is reported), which is conservative and therefore not in the quick tier; assumes limit x frame fits the stack for the default 500 and rowan's documented panics; does not decide termination in general.",
            "call-graph SCC cut-set + CFG must-pass-through / dominator rules over rustc MIR", True),
    "C02": ("other",
            "Token conservation decided on every CFG path: each popped token is moved into a tree sink, error fragments are queued, the pending queue is flushed before the root closes, only two functions write tokens to the builder, Cursor.index has three writers, and the lexer inside the parser is built from the caller's input parameter itself (not a stripped or trimmed view).",
            "Given rowan concatenates token texts in insertion order; standalone type/selection trees are not claimed by the property.",
            "affine (move) dataflow + must-pass-through + who-writes rules over rustc MIR", False),
    "C04": ("other",
            "Increment/decrement pairing on all CFG paths of all grammar functions, strict comparator and single undo in the tracker, stop flag of the lexer, error muting, the constructor of the limit error (Error::limit on every path of limit_err, so is_limit() holds also at end of input), and provenance of the reported counters from the parser's trackers to the compiler's *_reached figures.",
            "Decides the mechanism on all paths; which constructs count as nesting is given by the guarded call-graph edges and not compared with a reference.",
            "count-lattice dataflow (PAIR), comparator normalisation, who-writes, access-path provenance over rustc MIR", False),
    "C07": ("other",
            "Every path from the construct parser's return to the entry's return passes an end-of-input test whose non-Eof edges report an error; the compiler maps every tree error into the list whose emptiness decides Ok; the outer braces of a field set come in pairs (`{` is followed by expect('}') on every flag-consistent path, no `}` is consumed without its `{`).",
            "Leading tokens are covered by the construct parser's own error on an unexpected first token (not re-derived).",
            "must-pass-through over rustc MIR CFG with enumerated EOF-test idioms; provenance of DiagnosticList", False),
    "C30": ("other",
            "Reviewed-inventory equality for unsafe blocks/impls plus MIR rules for the reference-count protocol of Name (from_raw only wrapped in ManuallyDrop, exactly one +1 in clone and one -1 in drop on the Arc edge, tag provenance in the constructors), who-writes on the representation fields, who-reads for Eq/Ord/Hash, and impl-existence facts for copy-on-write; thorough tier adds compile-fail witnesses with compiling twins.",
            "Trusted: std::sync::Arc, triomphe::Arc. Decides the protocol on all CFG paths; does not count leaks at run time.",
            "unsafe inventory + count-lattice pairing + access-path provenance over rustc MIR/HIR; compile_fail witnesses", True),
    "C31": ("other",
            "The id handed out is the return value of one atomic fetch_add (a fact about all interleavings), bit structure of pack/tag/file_id with const-evaluated masks, the Name tag/pointer representation table shared with C30 (every writer of the packed word keeps the tag that matches the pointer kind), inventory of statics (no static mut, only atomics/OnceLock caches whose initialisers cannot reach the counter), and the deep interior-mutability walk from Schema/ExecutableDocument; thorough tier adds Send/Sync and E0596 witnesses.",
            "Assumes std atomics are atomic; uniqueness holds until the 63-bit counter wraps (reset edge), as the property states.",
            "who-calls + provenance of a single atomic RMW, const evaluation, type-structure walk (rustc facts); compile_fail witnesses", True),
    "C22": ("other",
            "Inventory of every order-observing operation on std HashMap/HashSet in the three crates against a reviewed table, confinement of seeded hash values and pointer addresses (taint), and absence of clock/env/thread/OS-randomness calls: a fact about all hash seeds, which no number of runs in one process can sample.",
            "Decides the absence of the known channels from per-process state to outputs; does not compare outputs. indexmap insertion order and std sort determinism are trusted.",
            "resolved-callee inventory + value-flow (taint) rules over rustc MIR; type facts of ordered collections", False),
    "C25": ("other",
            "Comparator consistency between the direct and the memoised path (contradiction rule), accumulator symmetry across the arms of the Selection match on every CFG path, and the relative-depth provenance of the memo.",
            "Decides the mechanism that makes the verdict fragment-independent; the set of list-valued fields is compared with the property's list.",
            "comparator normalisation + must-pass-through per match arm + symbolic provenance over rustc MIR", False),
    "C27": ("other",
            "Closed allow-list of async primitives over all resolved call sites (no combinator that polls two futures, no manual Future impl, no hand-written poll), shared executor path for sync and async, now_or_never only in execute_sync (a polled-once-then-called-again resolver would make side effects schedule-dependent), and await-inside-loop order over the document-ordered IndexMap: a fact about every schedule.",
            "futures::StreamExt::next / now_or_never / stream::iter are trusted to poll exactly their one underlying future/stream.",
            "who-calls allow-list over resolved callees (MIR) + HIR await-in-loop structure + call-graph facts", False),
    "C29": ("proof",
            "Finite decision tables are extracted from the type-checked source (match arms with first-match semantics over the 4x4 variant product; all CFG paths x atom assignments of is_variable_usage_allowed) and every cell is compared with the specification functions; the recursive cell calls the same function on the item types, so structural induction extends the 16 cells to every nesting of list and non-null. obligations == discharged == cells.",
            "Trusted: rustc's HIR/MIR, the spec tables transcribed in analyzer/rules/C29.py, and that `==` on NamedType is name equality (C30.EQ). Fails closed if the functions stop being single matches / loop-free.",
            "decision-table extraction from HIR match arms + MIR path enumeration, exhaustive cell-by-cell comparison", False),
    "C20": ("other",
            "Shared rule driver (call-graph fact) plus, for every diagnostic construction site reachable from the standalone entry, a guard analysis: no site may fire on the `absent` edge of a schema-derived lookup without evidence that a schema is present, and every schema-dependent variant (frozen classification) must be under positive schema evidence - decided per site over dominating edges, for all documents at once. The schema-less build carries every component of the AST (C19.FROMAST, shared): a dropped directive would turn a used variable into an unused one.",
            "The schema-(in)dependence classification of diagnostic variants and the enumerated guard idioms are the trusted tables; a new variant or idiom fails closed.",
            "call-graph reachability + dominator edge-fact (GUARD) analysis with type-based schema-evidence over rustc MIR", False),
    "C13": ("other",
            "Sibling agreement between the three places that compare an extension's kind with a definition's kind (18 sites: all must report on the non-matching branch), first-wins shape of the sticky insert helpers, order discipline of the orphan queue, one FileId per source text, and no per-source history in the builders (no loop-carried local of the per-source method decides a branch of the definitions loop; no builder field is written outside that loop). Each schema-side from_ast constructor adds all of the definition's own components before it applies the queued (earlier-standing) extensions, so the position of an extension does not decide precedence or order (C13.DEFFIRST).",
            "Decides necessary structural conditions of order-independence; does not compare diagnostics of sequential and concatenated builds.",
            "sibling (SIB) must-pass-through rule per match edge over rustc MIR; who-calls on the orphan queue", False),
    "C21": ("other",
            "Every recursive cycle of the compiler's call graph (28 SCCs) is classified: cut by a counting depth guard on every cycle, confined to one definition's syntax tree (bounded by the parser limit), or run only on validated input; cycles that follow names across definitions without a counting guard are reported (two genuine stack overflows found this way, listed as known findings). Diagnostic lists leave the crate only through sorting exits; guard limits are small compile-time constants; the cycle searches (Result<(), CycleError>) whose verdict lets later unguarded recursions terminate leave their loop over siblings early only with an error.",
            "Decides the stack clause relative to guard limits and the sortedness exits; the thorough tier adds the reviewed inventory of the crate's 88 panic-capable sites (69 rows by function and kind, each with a discharge class; a site outside the table is reported), conservative and therefore not in the quick tier; ariadne rendering and drop glue are outside; the allow-list of single-definition cycles carries one reason each.",
            "call-graph SCC classification with guard cut-sets (dominating success edges) + must-pass-through for sort exits over rustc MIR", True),
    "C03": ("other",
            "The lexer's character classes are folded from the type-checked source (match patterns, guards, const-evaluated lookup tables) over every ASCII code point plus representatives of every non-ASCII class and compared with the October 2021 sets; sibling agreement of the string-body states on line terminators; writers of Cursor.index. Both tiers: the advance() state machine is extracted from HIR by abstract interpretation over a symbolic cursor and the product with a reference machine of the lexical grammar is explored (kind, boundary, error/no-error, lost or twice-read characters; witness inputs); the thorough tier widens the alphabet.",
            "The Cursor primitives (bump, eatc, current_str, prev_str, drain, is_pending) are the trusted vocabulary of the machine extraction; reference choices (SourceCharacter = any scalar value, whitespace runs as one token) are listed in the evidence.",
            "pattern-set evaluation of HIR predicates over a finite character partition; abstract interpretation of the lexer loop from HIR + product-automaton exploration against a reference machine", True),
    "C06": ("other",
            "Sibling agreement between the lexer's escape table and the decoder's match arms (each accepted letter pushes the spec's character, none falls into the silent arm), block-string constants/line-splitting/delimiter offsets, the WhiteSpace predicate of the block-string algorithm (no std whitespace), the arithmetic of BlockStringValue() where the code's shape shows it (first line excluded from the common indent, indent < length, min(commonIndent, len) removed from every line but the first, leading / trailing blank lines, LF joining), and provenance of compiler string values from the decoder.",
            "Decides the escape tables (by a specialising walk of the decoder's CFG per escape letter), the structural constants and the recognised constructs of the indentation algorithm (a construct written differently is noted, not judged); equality of decoded values over all strings is not decided.",
            "specialising CFG walk (partial evaluation on character classes) + sibling table comparison; symbolic evaluation of iterator pipelines and closure path tables over rustc MIR; const evaluation", True),
    "C10": ("other",
            "Byte-class tables of the Name grammar folded over all 256 bytes (and compared with the lexer's and parser's), shape of is_valid_syntax, who-calls gate on the unchecked constructors (dominating successful check / grammar-matching literal / const-asserted macro), guard of the numeric serde visitors, the regular languages accepted by IntValue::valid_syntax and FloatValue::valid_syntax (extracted from their HIR as automata and compared with the grammar's IntValue / FloatValue by language difference, each direction with a shortest witness), the text of From<i32>/From<f64> (Display only), and the Display templates of Type vs the CST conversion.",
            "Clause-level: float printing is std behaviour; numeric round trips are not decided.",
            "pattern-set evaluation, dominating-fact (GUARD) who-calls rule, abstract interpretation of string predicates into regular languages + automata equivalence, format-template decoding over rustc HIR/MIR", True),
    "C09": ("other",
            "Composition of three extracted tables: the serializer's escaped-character set and per-character escape text, the lexer's string-body/escape tables and the decoder's table - every character the lexer cannot take raw is escaped and every escape decodes back to the same character; plus the presence rules of can_be_block_string (carriage return, blank first/last line, zero common indentation computed over the non-blank lines only) and the triple-quote constants shared with the parser.",
            "Decides the table-level inverse relation and the block-string gate; the round trip over all Unicode strings (indentation arithmetic, line joining) is not decided.",
            "pattern-set evaluation of closures/match arms, format-template decoding, const comparison over rustc HIR", False),
    "C05": ("other",
            "Table- and shape-level necessary conditions of grammar conformance: keyword->production dispatch tables against the node kinds the productions open and against graphql.ungram / cst::Definition; four-way agreement on the 19 directive locations; one-or-more list productions cannot pass from opening to closing delimiter without an item or an error; every node kind a grammar function opens has produced all elements graphql.ungram requires of it on every path that reports no error (abstract interpretation over token-kind sets); the [Const] parameter is passed through every call into Directives / Arguments / Value and a Variable under Const is reported; the two `Name but not ...` productions (EnumValue, FragmentName) compare the token text with each excluded word in their own function and report it.",
            "Verdict equivalence with a reference parser is not decided (not decidable by this family); only the named tables and shapes are. One known finding: `schema { query: }` is accepted (root_operation_type_definition, missing NamedType), see known_findings.json.",
            "string-pattern table extraction (HIR) + must-pass-through over MIR CFG + sibling table comparison + token-kind abstract interpretation of the grammar functions against graphql.ungram", False),
    "C28": ("other",
            "The scalar coercion table (built-in names, JSON predicates consulted per name, bounds) and the structural shape of null/list/input-object/variable-map handling, extracted from the type-checked match arms and if-chains; plus the table of graphql_value_to_json, which turns default values into JSON (defaults are not coerced again): faithful per literal kind, Int / Float literals through the parser of their own text and never a narrowing conversion; the caller's JSON value is returned unchanged only on paths where the type is a scalar or an enum. A variable's default value is coerced to the declared type like a provided value (C28.DEFCOERCE; it was inserted as written - found and repaired).",
            "Clause-level: numeric edge values and serde_json_bytes' predicates are not decided.",
            "decision-table extraction over HIR match arms and if-chains", False),
    "C15": ("other",
            "For each invariant in the statement, `invariant broken => a diagnostic is pushed` on the validator's own branch structure (region decision tables over loop bodies: lookup absent, wrong kind, not output/input type, missing interface field, invalid implementation type/arguments, non-null input cycle, reserved name, no query root, reused root); the kind predicates' tables over the six ExtendedType variants; every element reaches its validator on every path (call chain from validate_schema); FindRecursiveInputValue follows exactly non-null named references; plus the built-in scalar bookkeeping rules shared with C16. The implemented-field type compatibility table (C29.IMPL) is shared.",
            "Decides the one-directional implication on branch structure and the extracted tables; helper predicates such as Schema::is_subtype and the iterator adaptors feeding the loops are taken as given. Not a proof that Valid<Schema> implies the invariants.",
            "region decision tables (MIR path enumeration per loop body), variant tables, loop-relative must-pass-through, may-derive slices", False),
    "C16": ("other",
            "validate_schema changes the schema only through the prune (retain) and restore (insert) of built-in scalar definitions on schema.types: the 8-row decision table of the prune closure, the 3-row table of record_type_ref, coverage of all five containers of type references by a loop that records every element's inner named type on every path, the restore loop after the prune on every path, and no other mutable borrow or non-benign interior mutability of the schema / executable document. The implemented-field type compatibility table (C29.IMPL) is shared: a validator that looks a name up in schema.types instead of comparing names rejects a field of a built-in scalar that re-validation has not restored yet.",
            "Necessary conditions of idempotence (who writes, what the bookkeeping decides, that all references are recorded); equality of the schema before and after re-validation is not decided.",
            "decision tables from MIR path enumeration, loop-relative must-pass-through, may-derive slices, who-writes and type facts", False),
    "C12": ("other",
            "Structural necessary conditions of `no component is lost, duplicated or reordered between a Schema and its serialized definitions and extensions`: insertion-ordered collection types, no order-perturbing operation on component collections anywhere in the crate, the definition/extension split of all 7 to_ast implementations (same-named source field, None vs Some(ext) selector, filter/map/collect helper shape), coverage of every component collection by iter_origins, variant dispatch, root-operation pairing, the conditions under which the schema definition is omitted (all conjuncts present; per operation type an Option *equality* between the schema's root and the root an implicit definition would give), and the extension emission order (first occurrence over a chain of collections, which cannot agree with every collection's order: five genuine reorderings listed as known findings).",
            "Round-trip equality and validity after the round trip are not decided; AST printing itself belongs to C08/C09. Known findings: extension order for Object/Interface/Union/Enum/InputObject types, see known_findings.json.",
            "ADT field type facts + resolved-callee inventory + symbolic (access-path) evaluation of straight-line iterator pipelines and aggregates over rustc MIR; dominating-edge facts for the implicit-definition decision", False),
    "C23": ("other",
            "The five FromStr implementations are interpreted symbolically (from the type-checked HIR) over templates of Name holes and literal delimiters taken from the RFC's five forms and from the Display implementations' decoded format templates: Display prints the form, parse(print(c)) == c with every field restored, SchemaCoordinate::from_str picks the right variant, near-miss templates (empty names, extra/missing delimiters, junk before `)`) are rejected, every split-off piece is consumed exactly once by a Name check / sub-parser / literal comparison, and no delimiter is a Name character. Lookup: decision tables over the six ExtendedType variants for lookup_ref and the three typed lookups, map/key/error of the straight-line lookups, argument order of every lookup -> lookup_ref call (all parameters are Names, so a swap type-checks), argument_by_name, and variant dispatch.",
            "Given Name::try_from == the Name grammar (C10) and IndexMap::get semantics. The interpretation is symbolic over templates and is exact because delimiters are outside the Name alphabet; strings that are not UTF-8 sequences of names and delimiters are rejected by Name::try_from and are not enumerated.",
            "symbolic interpretation of HIR (straight-line string-splitting parsers) over hole/literal templates + format-template decoding + MIR decision tables per enum variant and access-path provenance of call arguments", False),
    "C26": ("other",
            "Decision tables and provenance facts of the executor: try_nullify's 3-row table and, for every call of it, that the type used to nullify a value is the type the value was completed with (list item vs list, field definition); argument-coercion errors and null leaves follow the field/type nullability; data = result.ok(); every field error (39 sites) is built with the enclosing position's path or the list-index-extended path, paths are extended by the response key / list index exactly once and reversed once; DoesFragmentTypeApply as a table over ExtendedType; CollectFields' skip/include defaults, grouping by response key in an insertion-ordered map, first-visit / type-condition guards and unchanged recursion arguments; eval_if_arg; result coercion of the five built-in scalars and enums; coerce_argument_values as the 128-row decision table of CoerceArgumentValues() (provided / variable or literal / variable present / nulls / non-null type / default) looked up among the CFG paths of one loop iteration.",
            "Response equality with a reference executor, merging of sub-selections and resolver behaviour are not decided. The rules read async fns from typed HIR (names intact) and plain fns from MIR.",
            "decision-table extraction (MIR path enumeration), dominating-edge facts, and access-path / local-identity provenance over typed HIR of the async executor functions", False),
    "C18": ("other",
            "Typing provenance of executable documents: the definition handed to Field::new is schema.type_field(&self.ty, &ast.name) for the same AST field; sub-selection sets are typed by definition.ty.inner_named_type(), the fragment's type condition, or the parent type (decision table of new_inline_fragment), root selection sets by schema.root_operation; Schema::type_field as a decision table (explicit fields on Object/Interface, __typename on Object/Interface/Union, __schema/__type only on the query root, error cases); the root_fields/all_fields iterators enter a named fragment only on first insertion into fragments_seen, always enter inline fragments, and (only all_fields) descend into field sub-selections; and the per-operation scope of the validated_fragments memo (variables written only in the constructor that creates the empty memo, one context per operation); the type an inline fragment's selections are validated against (its type condition, else the parent type passed in); the completeness conditions of the fragment-cycle search shared with C21.",
            "The validity guarantees of the statement (acyclic spreads, defined variables, leaf/composite selections) are validation verdicts and are not decided, except the memo-scope condition that makes `every used variable is defined` hold for fragments shared between operations.",
            "local-identity provenance over typed HIR, decision tables from MIR path enumeration, dominating-edge facts, who-writes on a struct field", False),
    "C11": ("other",
            "Location provenance of the CST->AST conversion (only location-carrying constructors; at all 28 with_location sites the syntax node and the converted value come from the same CST node; the conversion's own file id), the Name span (NAME node, first token text; start offset and tag-preserving file id stored; location() rebuilt from them), the unit of LineColumn.column (must derive from a character count, not from a byte offset - the byte-column defect was found by this rule and repaired), the separator set of the line counter (not ariadne's seven-separator table; the CRLF look-ahead reads the whole source text rather than the prefix cut at the offset; only LF and CR are compared - also found and repaired), the source of JSON error locations, and that the text the parser runs on is the same parameter the SourceFile stores (offsets index the text that is kept).",
            "Decides provenance and units, not the numeric values of positions. Later stages (schema/executable) clone the located nodes; that they do is not re-derived.",
            "access-path provenance over rustc MIR (symbolic operands), who-calls on location-less constructors, backward may-derive slice for units and line separators", False),
    "C17": ("other",
            "Handler registry: each of the 34 operation-validation rules of spec section 5 (as split into diagnostic kinds) has a diagnostic of the matching kind constructed in a function reachable from the executable validation entries and, for construct-specific rules, through the validator of that construct (values, directives, field arguments). The missing handler for 5.6.3 Input Object Field Uniqueness was found by this rule and repaired. Plus the per-operation scope of the validated-fragments memo (the per-operation variable rules 5.8.3/5.8.5 are otherwise applied with another operation's variables); SameResponseShape's wrapper table over the 16 kind pairs of the two field types (same-nullability lists unwrap together, any other list / nullability difference conflicts). In value_of_correct_type every accepting path of a List / Object literal visits the nested values, so All Variable Uses Defined holds at any depth (C17.NESTED; the custom-scalar object arm did not - found and repaired). The Variable arm must decide nested positions by type compatibility (C17.VARPOS): it compares innermost named types only - a genuine defect recorded as a known finding.",
            "Presence of a handler per rule is a necessary condition only; that each handler's condition equals the spec's, i.e. verdict agreement with graphql-js, is not decided (not decidable by this family).",
            "call-graph reachability from entry points to diagnostic construction sites (aggregates in MIR) against a rule->variant registry; who-writes / provenance for the memo scope", False),
    "C32": ("other",
            "The determinism sentence decided structurally over all 517 library functions of apollo-smith (no entropy source other than the caller's Unstructured / RandomProvider; no std HashMap/HashSet iteration into output except one allow-listed infeasible fallback), plus structural conditions of validity (object / interface extensions are told which type they extend, so an interface already implemented is not picked again - a genuine defect found and repaired; reachable_fragment_names is a fixpoint, worklist or repeat-while-changed, not one pass over the definitions): the interface-field backfill, which reads only direct parents, iterates a topological (parents-first) order of the implements graph; type_name() returns only names that passed the `not yet used` loop and records them; the name alphabets are inside the GraphQL Name grammar; unused fragments are pruned by reachability from operations; reader/writer agreement on input object fields (values of an input object type are built from its first definition only, so an `extend input` gives every non-null field without default its inner type - a second genuine defect, found and repaired).",
            "That every generated document parses and validates is not decided. arbitrary::Unstructured and petgraph::toposort are trusted.",
            "resolved-callee inventory over rustc MIR, loop-source provenance (may-derive slice), dominating-edge facts, const evaluation", False),
    "C33": ("other",
            "Structural conditions of the generated response shape: collect_fields groups by alias-or-name, recurses into fragments with the same concrete type under a type-condition test on that concrete type, and appends what a fragment contributes to the group already collected under the same response key (never IndexMap::extend / insert, which replace it); type_condition_matches as a decision table; one concrete type per selection set feeds both field collection and __typename; nulls only under a nullability test; the count and pick passes over an interface's implementers filter identically; union members / enum values are picked from the type's own collection; a field whose declared type has d list levels is generated with exactly d array levels on every generator path (d = 0..3, abstract evaluation; the flat generation of nested lists was found by this clause and repaired). The __typename meta field is recognised by the field's name, not by its response key, in both generator functions.",
            "The shape of generated data and re-execution over it are not decided. The list-nesting clause is decided by abstract evaluation for list depths 0..3 (the flat-list defect it found is repaired, see known_findings.json 'fixed').",
            "decision tables and dominating-edge facts over rustc MIR, typed-HIR guard shape, sibling closure comparison, abstract evaluation of the generator over list depths", False),
    "C08": ("other",
            "Coverage and dispatch conditions of the AST printer: all 25 struct printers destructure Self without `..` and hand every field to a writer; Definition (17), Selection (3) and Value (9) variants are each printed by their own printer / syntax with no wildcard; the `{..}` shorthand is taken only under all five conjuncts (nothing written yet, query, no name, no variables, no directives); output_empty is cleared only by State::write and every definition printer calls State::write on every non-error path; items are separated by the *_or_space forms so that the no-indent configuration writes a space where the indented one writes a line break; and the block-string gate shared with C09.",
            "Equality of the re-parsed AST and byte-identical re-serialization are not decided; the CST->AST conversion builds its targets with struct expressions, whose field completeness the compiler enforces.",
            "typed-HIR use analysis per destructured field, MIR variant-region dispatch tables with symbolic call arguments, must-pass-through summaries (fixpoint over the printer's call graph), who-writes", False),
    "C14": ("other",
            "Handler registry for the type system: each of 47 type-system validation rules of spec section 3 (as split into diagnostic kinds: schema roots, unique names, reserved names, extension kinds, non-empty field/member/value sets, output/input types, implements contracts, input-object cycles, directive definitions and applications, default values) has a diagnostic of the matching kind constructed in a function reachable from the schema build / validation entries and, for kind-specific rules, through the validator of that kind of definition, which must itself be reachable from validate_schema. Plus a contradiction rule over the validators (C14.KINDGATE): where a referenced type name is resolved and some way of failing to resolve to the required kind is reported within a loop iteration, every way is (`undefined` and `defined, of another kind` alike), except built-in scalars that validate_schema inserts afterwards. The (interface field type, implementing field type) variant table of IsValidImplementationFieldType is decided by C29.IMPL, shared.",
            "Presence of a reachable handler per rule is a necessary condition only; that each handler's condition equals the spec's, i.e. agreement of verdicts with graphql-js over all schema documents, is not decided (not decidable by this family). The branch-level implication `invariant broken => diagnostic` for the invariants of the statement is decided under C15.",
            "call-graph reachability from entry points through per-kind validators to diagnostic construction sites (aggregates in rustc MIR) against a rule->variant registry", False),
    "C19": ("other",
            "Provenance conditions of the executable -> AST lowering that serialization goes through: in the five to_ast lowerings every AST field is drawn from the same-named field of self (the struct expressions make the compiler enforce that a value is given, these rules that it is the right one - alias/name, fragment_name/type_condition are all Names); Selection variants map to the same AST variant of the same node with its location; SelectionSet lowers every selection in order; the document emits anonymous, named, fragments in map order with each node's own location; a FieldSet serializes every selection of its set. The opposite lowering, AST to executable (from_ast.rs), carries every field of the ast Field / FragmentSpread / InlineFragment / OperationDefinition / FragmentDefinition (C19.FROMAST).",
            "Equality of the re-parsed and re-validated document with the original is not decided; printing of the lowered AST is decided under C08/C09 and typing of a re-parsed document under C18.",
            "symbolic (access-path) evaluation of aggregates and straight-line iterator pipelines, variant-region dispatch over rustc MIR", False),
    "C24": ("other",
            "The introspection resolvers as extracted tables: each of the seven resolvers reports its type name and handles exactly the fields built_in_types.graphql declares for that type; __Type.kind by ExtendedType variant and wrapper, equal to the __TypeKind enum; the per-kind null/non-null table of fields, interfaces, possibleTypes, enumValues, inputFields, specifiedByURL, ofType; the ofType unwrapping table; root operation types read from the same-named schema fields; every deprecable list filtered by includeDeprecated || no @deprecated with default false, isDeprecated / deprecationReason from @deprecated(reason); every leaf field reading the same-named part of its definition (18 leaves); and the collection each data-bearing (field, kind) pair reads (possibleTypes of an interface = implementing objects only).",
            "Equality of introspection response data with the reference implementation on all valid schemas is not decided; the tables are necessary conditions of it. The executor that drives the resolvers is decided under C26.",
            "string-match decision-table extraction over typed HIR with local-identity keys, compared with the crate's own introspection schema file and the spec's per-kind table; MIR path tables", False),
}

NOT_APPLICABLE = {
    "C14": "agreement of schema-validation verdicts with graphql-js over all schema documents is a relation between two programs' outputs on runtime inputs; no shape of apollo's code implies it (static analysis cannot apply)",
    "C19": "equality of a re-parsed, re-validated executable document with the original is a round-trip over runtime values; its only structural condition is compiler-enforced already",
    "C24": "equality of introspection response data with the reference implementation on all valid schemas quantifies over data, not code paths",
}


def main():
    ids = [json.loads(l)["id"] for l in open(os.path.join(VERIF, "properties.jsonl"))]
    checks = []
    na = []
    for pid in ids:
        if pid in CLAIMED:
            cat, text, note, tech, thorough = CLAIMED[pid]
            c = {
                "property_id": pid,
                "quick_cmd": "./check %s --tier quick" % pid,
                "evidence_file": "/verif/evidence/%s.json" % pid,
                "replay_cmd_template": "./check %s --replay {path}" % pid,
                "engine": "static-facts",
                "level_claimed": {"category": cat, "text": text, "design_ref": "DESIGN.md section 4, %s" % pid},
                "level_note": note,
                "technique": tech,
            }
            c["thorough_cmd"] = "./check %s --tier thorough" % pid
            checks.append(c)
        else:
            na.append({"property_id": pid,
                       "reason": NOT_APPLICABLE.get(pid, "clause rules not built yet (see DESIGN.md section 9); nothing is claimed on paper only")})
    m = {
        "version": 1,
        "setup_cmd": "cd /verif/driver && CARGO_NET_OFFLINE=true cargo build --release --offline 2>&1 | tail -3",
        "hooks": {
            "guard": "apollographql_apollo_rs_verif",
            "enable": "none needed: the analysis reads the ordinary build of /repo through a rustc_private driver (RUSTC_WORKSPACE_WRAPPER); no hook commits exist",
            "baseline_off_cmd": "cd /repo && (cargo nextest run --workspace --no-fail-fast --test-threads 8 --offline || cargo test --workspace --no-fail-fast --offline)",
            "source_commits": [],
            "add_only": True,
        },
        "engines": [
            {"name": "static-facts", "path": "/verif/driver + /verif/analyzer",
             "serves_properties": sorted(CLAIMED),
             "kind_free_text": "rustc_private fact extractor (MIR-lite, HIR-lite, consts, ADTs, type facts) + Python rule engine (call graph/SCC, CFG dominators, must-pass-through, access paths, count dataflow, decision tables)"},
        ],
        "checks": checks,
        "not_applicable": na,
        "notes": "All checks are static: nothing in /repo is executed. Facts are re-extracted whenever the content hash of /repo's sources changes (cache under /verif/.cache). Known findings: /verif/known_findings.json.",
    }
    with open(os.path.join(VERIF, "MANIFEST.json"), "w") as fh:
        json.dump(m, fh, indent=1)
    print("claimed:", sorted(CLAIMED), "n/a:", len(na))


if __name__ == "__main__":
    main()
