#!/bin/bash
# usage: run_seeds.sh [REPO_COPY]
# Regression of the machinery against every kept seeded change: for each /verif/seeded/<id>/patch.diff
# apply it to a scratch copy of the repository (default: a fresh `git worktree` of /repo HEAD under
# /tmp), run the check of the property it breaks with VERIF_REPO pointing there, expect exit 1, and
# revert.  Prints one line per seed: CAUGHT / MISSED / SKIP (patch no longer applies).
set -u
VERIF=$(cd "$(dirname "$0")/.." && pwd)
W=${1:-/tmp/seed/regress}
if [ ! -d "$W" ]; then git -C /repo worktree add --detach -q "$W" HEAD || exit 2; fi
cd "$W" && git checkout -q -- . && git checkout -q --detach "$(git -C /repo rev-parse HEAD)"
export VERIF_REPO=$W
caught=0; missed=0; skipped=0
for d in "$VERIF"/seeded/*/; do
  id=$(basename "$d"); pid=${id%-*}
  cd "$W"; git checkout -q -- .
  if ! git apply --check "$d/patch.diff" 2>/dev/null; then echo "SKIP   $id (patch does not apply to HEAD)"; skipped=$((skipped+1)); continue; fi
  git apply "$d/patch.diff"
  out=$(cd "$VERIF" && ./check "$pid" 2>&1); rc=$?
  if [ $rc -eq 1 ]; then echo "CAUGHT $id: $(echo "$out" | grep -E '^  C[0-9]+\.|CHECK-FAILED' | head -1 | cut -c1-150)"; caught=$((caught+1));
  else echo "MISSED $id (exit $rc): $(echo "$out" | tail -1)"; missed=$((missed+1)); fi
  git checkout -q -- .
done
echo "seeds: caught=$caught missed=$missed skipped=$skipped"
[ $missed -eq 0 ]
