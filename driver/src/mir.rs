//! MIR-lite dump.
use crate::json::J;
use crate::Ctx;
use rustc_hir::def::DefKind;
use rustc_hir::def_id::DefId;
use rustc_middle::mir::*;
use rustc_middle::ty::{self, Instance, InstanceKind, TypingEnv};

pub fn dump_all<'tcx>(cx: &Ctx<'tcx>) -> J {
    let tcx = cx.tcx;
    let mut out: Vec<(String, J)> = vec![];
    let mut keys: Vec<_> = tcx.mir_keys(()).iter().copied().collect();
    keys.sort_by_key(|k| cx.uid(k.to_def_id()));
    for ldid in keys {
        let did = ldid.to_def_id();
        let kind = tcx.def_kind(did);
        let kind_s = match kind {
            DefKind::Fn => "fn",
            DefKind::AssocFn => "assoc_fn",
            DefKind::Closure => {
                if tcx.is_coroutine(did) {
                    "coroutine"
                } else {
                    "closure"
                }
            }
            _ => continue,
        };
        if !tcx.is_mir_available(did) {
            continue;
        }
        let body = tcx.optimized_mir(did);
        out.push((cx.uid(did), dump_body(cx, did, kind_s, body)));
    }
    J::Map(out)
}

fn dump_body<'tcx>(cx: &Ctx<'tcx>, did: DefId, kind_s: &str, body: &Body<'tcx>) -> J {
    let tcx = cx.tcx;
    let mut o: Vec<(&'static str, J)> = vec![];
    o.push(("name", J::s(cx.path(did))));
    o.push(("kind", J::s(kind_s)));
    o.push(("item", J::opt(tcx.opt_item_name(did).map(|s| J::s(s.to_string())))));
    if let Some(p) = tcx.opt_parent(did) {
        o.push(("parent", J::s(cx.uid(p))));
    }
    let root = tcx.typeck_root_def_id(did);
    if root != did {
        o.push(("root", J::s(cx.uid(root))));
    }
    if matches!(tcx.def_kind(did), DefKind::Fn | DefKind::AssocFn) {
        o.push(("pub", J::Bool(tcx.visibility(did).is_public())));
        // no visibility modifier at all: visible in the module that contains the item only
        let private = match (tcx.visibility(did), did.as_local()) {
            (ty::Visibility::Restricted(m), Some(ld)) => {
                m == tcx.parent_module_from_def_id(ld).to_def_id()
            }
            _ => false,
        };
        o.push(("private", J::Bool(private)));
        let sig = tcx.fn_sig(did).skip_binder().skip_binder();
        o.push(("unsafe", J::Bool(sig.safety().is_unsafe())));
        o.push((
            "sig_in",
            J::Arr(sig.inputs().iter().map(|t| J::s(cx.ty(*t))).collect()),
        ));
        o.push(("sig_out", J::s(cx.ty(sig.output()))));
        o.push(("const", J::Bool(tcx.is_const_fn(did))));
    }
    if let Some(imp) = tcx.impl_of_assoc(did) {
        let self_ty = tcx.type_of(imp).skip_binder();
        let tr = tcx.impl_opt_trait_ref(imp).map(|t| t.skip_binder().def_id);
        o.push((
            "impl",
            J::Obj(vec![
                ("uid", J::s(cx.uid(imp))),
                ("self", J::s(cx.ty(self_ty))),
                ("trait", J::opt(tr.map(|t| J::s(cx.path(t))))),
            ]),
        ));
    } else if let Some(tr) = tcx.trait_of_assoc(did) {
        o.push(("trait_default", J::s(cx.path(tr))));
    }
    o.push(("span", cx.span(body.span)));
    if let Some(m) = cx.macro_name(body.span) {
        o.push(("macro", J::s(m)));
        o.push(("callsite", cx.span(cx.callsite(body.span))));
    }
    o.push(("argc", J::n(body.arg_count)));
    // locals
    let mut names: Vec<Option<String>> = vec![None; body.local_decls.len()];
    let mut upvars: Vec<J> = vec![];
    for vdi in &body.var_debug_info {
        if let VarDebugInfoContents::Place(p) = &vdi.value {
            if p.projection.is_empty() {
                names[p.local.as_usize()] = Some(vdi.name.to_string());
            } else {
                upvars.push(J::Arr(vec![place(cx, body, p), J::s(vdi.name.to_string())]));
            }
        }
    }
    let locals: Vec<J> = body
        .local_decls
        .iter_enumerated()
        .map(|(l, d)| {
            J::Arr(vec![
                J::s(cx.ty(d.ty)),
                J::opt(names[l.as_usize()].clone().map(J::s)),
            ])
        })
        .collect();
    o.push(("locals", J::Arr(locals)));
    if !upvars.is_empty() {
        o.push(("upvars", J::Arr(upvars)));
    }
    let typing_env = TypingEnv::post_analysis(tcx, did);
    let mut blocks = vec![];
    for (_bb, data) in body.basic_blocks.iter_enumerated() {
        let mut stmts = vec![];
        for st in &data.statements {
            if let Some(j) = stmt(cx, body, typing_env, st) {
                stmts.push(j);
            }
        }
        let term = data.terminator();
        let t = terminator(cx, body, typing_env, term);
        blocks.push(J::Obj(vec![
            ("s", J::Arr(stmts)),
            ("t", t),
            ("c", J::Bool(data.is_cleanup)),
        ]));
    }
    o.push(("blocks", J::Arr(blocks)));
    J::Obj(o)
}

fn sp<'tcx>(cx: &Ctx<'tcx>, s: rustc_span::Span) -> J {
    let cs = cx.callsite(s);
    let sm = cx.tcx.sess.source_map();
    let lo = sm.lookup_char_pos(cs.lo());
    J::Arr(vec![
        J::n(lo.line),
        J::n(lo.col.0 + 1),
        J::Bool(s.from_expansion()),
    ])
}

pub fn place<'tcx>(cx: &Ctx<'tcx>, body: &Body<'tcx>, p: &Place<'tcx>) -> J {
    let tcx = cx.tcx;
    let mut pt = PlaceTy::from_ty(body.local_decls[p.local].ty);
    let mut proj = vec![];
    for elem in p.projection.iter() {
        match elem {
            ProjectionElem::Deref => proj.push(J::s("*")),
            ProjectionElem::Field(idx, _ty) => {
                let mut name: Option<String> = None;
                if let ty::Adt(def, _) = pt.ty.kind() {
                    let vi = pt.variant_index.unwrap_or(rustc_abi::FIRST_VARIANT);
                    if def.is_enum() || def.is_struct() || def.is_union() {
                        if let Some(v) = def.variants().get(vi) {
                            if let Some(f) = v.fields.get(idx) {
                                name = Some(f.name.to_string());
                            }
                        }
                    }
                }
                proj.push(J::Arr(vec![
                    J::s("f"),
                    J::n(idx.as_usize()),
                    J::opt(name.map(J::s)),
                ]));
            }
            ProjectionElem::Downcast(sym, vi) => {
                proj.push(J::Arr(vec![
                    J::s("d"),
                    J::n(vi.as_usize()),
                    J::opt(sym.map(|s| J::s(s.to_string()))),
                ]));
            }
            ProjectionElem::Index(l) => {
                proj.push(J::Arr(vec![J::s("i"), J::n(l.as_usize())]));
            }
            ProjectionElem::ConstantIndex { offset, min_length, from_end } => {
                proj.push(J::Arr(vec![
                    J::s("ci"),
                    J::n(offset),
                    J::n(min_length),
                    J::Bool(from_end),
                ]));
            }
            ProjectionElem::Subslice { from, to, from_end } => {
                proj.push(J::Arr(vec![J::s("sub"), J::n(from), J::n(to), J::Bool(from_end)]));
            }
            other => proj.push(J::Arr(vec![J::s("other"), J::s(format!("{:?}", other))])),
        }
        pt = pt.projection_ty(tcx, elem);
    }
    J::Arr(vec![J::n(p.local.as_usize()), J::Arr(proj)])
}

fn place_ty<'tcx>(cx: &Ctx<'tcx>, body: &Body<'tcx>, p: &Place<'tcx>) -> ty::Ty<'tcx> {
    p.ty(&body.local_decls, cx.tcx).ty
}

fn const_j<'tcx>(
    cx: &Ctx<'tcx>,
    typing_env: TypingEnv<'tcx>,
    c: &ConstOperand<'tcx>,
) -> J {
    let tcx = cx.tcx;
    let ty = c.const_.ty();
    let mut extra: Vec<(&'static str, J)> = vec![];
    let mut val = format!("{}", c.const_);
    match ty.kind() {
        ty::FnDef(def, args) => {
            extra.push(("fn", J::s(cx.uid(*def))));
            extra.push(("fn_name", J::s(cx.path(*def))));
            if let Ok(Some(inst)) = Instance::try_resolve(tcx, typing_env, *def, args) {
                if inst.def_id() != *def {
                    extra.push(("fn_resolved", J::s(cx.uid(inst.def_id()))));
                }
            }
            val = String::new();
        }
        _ => {}
    }
    if let Const::Unevaluated(uv, _) = c.const_ {
        extra.push(("def", J::s(cx.uid(uv.def))));
        if let Some(p) = uv.promoted {
            extra.push(("promoted", J::n(p.as_usize())));
        }
        if !c.const_.has_non_region_param_like() {
            if let Ok(v) = c.const_.eval(tcx, typing_env, c.span) {
                val = format!("{}", Const::Val(v, ty));
            }
        }
    }
    // `&CONST` operands (promoted or not): print the pointee when it is plain memory
    if !c.const_.has_non_region_param_like() {
        if let Ok(ConstValue::Scalar(interpret::Scalar::Ptr(ptr, _))) =
            c.const_.eval(tcx, typing_env, c.span)
        {
            let (prov, offset) = ptr.into_raw_parts();
            let alloc_id = prov.alloc_id();
            if let (Some(inner), Some(interpret::GlobalAlloc::Memory(a))) =
                (ty.builtin_deref(true), tcx.try_get_global_alloc(alloc_id))
            {
                use rustc_middle::ty::TypeVisitableExt;
                // `&&str` (the promoted right-hand side of `name == "literal"`): the pointee is a
                // fat pointer to the literal, which the pretty-printer can follow
                let ref_to_str = matches!(inner.kind(), ty::Ref(_, t, _) if t.is_str());
                if (a.inner().provenance().ptrs().is_empty() || ref_to_str)
                    && a.inner().len() <= 256
                    && !inner.has_non_region_param()
                    && inner.is_sized(tcx, typing_env)
                {
                    let v = ConstValue::Indirect { alloc_id, offset };
                    extra.push(("pointee", J::s(format!("{}", Const::Val(v, inner)))));
                }
            }
        }
    }
    // promoted constants inside generic items (closures count: their signature is a type
    // parameter) cannot be evaluated here; read the promoted body instead: `&Enum::UnitVariant`
    if !extra.iter().any(|(k, _)| *k == "pointee") {
        if let Const::Unevaluated(uv, _) = c.const_ {
            if let (Some(p), Some(ldef)) = (uv.promoted, uv.def.as_local()) {
                let proms = tcx.promoted_mir(ldef.to_def_id());
                if let Some(pb) = proms.get(p) {
                    let mut found: Option<String> = None;
                    let mut n_assign = 0;
                    for bb in pb.basic_blocks.iter() {
                        for st in &bb.statements {
                            if let StatementKind::Assign(bx) = &st.kind {
                                let (_pl, rv) = &**bx;
                                match rv {
                                    Rvalue::Aggregate(kind, fields) => {
                                        n_assign += 1;
                                        if let AggregateKind::Adt(did, vi, _, _, _) = &**kind {
                                            if fields.is_empty() {
                                                let adt = tcx.adt_def(*did);
                                                found = Some(format!(
                                                    "{}::{}",
                                                    cx.path(*did),
                                                    adt.variant(*vi).name
                                                ));
                                            }
                                        }
                                    }
                                    Rvalue::Ref(..) => {}
                                    _ => n_assign += 1,
                                }
                            }
                        }
                    }
                    if n_assign == 1 {
                        if let Some(f) = found {
                            extra.push(("pointee", J::s(f)));
                        }
                    }
                }
            }
        }
    }
    if let Some(sd) = c.check_static_ptr(tcx) {
        extra.push(("static", J::s(cx.uid(sd))));
        extra.push(("static_name", J::s(cx.path(sd))));
    }
    if let Some(si) = c.const_.try_eval_scalar_int_like(tcx, typing_env) {
        extra.push(("int", J::s(si)));
    }
    if val.len() > 400 {
        val.truncate(400);
    }
    J::Arr(vec![J::s("k"), J::s(cx.ty(ty)), J::s(val), J::Obj(extra)])
}

trait ConstExt<'tcx> {
    fn has_non_region_param_like(&self) -> bool;
    fn try_eval_scalar_int_like(
        &self,
        tcx: ty::TyCtxt<'tcx>,
        typing_env: TypingEnv<'tcx>,
    ) -> Option<String>;
}
impl<'tcx> ConstExt<'tcx> for Const<'tcx> {
    fn has_non_region_param_like(&self) -> bool {
        use rustc_middle::ty::TypeVisitableExt;
        match self {
            Const::Ty(t, c) => t.has_non_region_param() || c.has_non_region_param(),
            Const::Unevaluated(uv, t) => uv.args.has_non_region_param() || t.has_non_region_param(),
            Const::Val(_, t) => t.has_non_region_param(),
        }
    }
    fn try_eval_scalar_int_like(
        &self,
        tcx: ty::TyCtxt<'tcx>,
        typing_env: TypingEnv<'tcx>,
    ) -> Option<String> {
        if self.has_non_region_param_like() {
            return None;
        }
        let t = self.ty();
        if !(t.is_integral() || t.is_bool() || t.is_char()) {
            return None;
        }
        let si = self.try_eval_scalar_int(tcx, typing_env)?;
        let bits = si.to_bits(si.size());
        if t.is_signed() {
            let size = si.size();
            Some(format!("{}", size.sign_extend(bits) as i128))
        } else {
            Some(format!("{}", bits))
        }
    }
}

fn operand<'tcx>(
    cx: &Ctx<'tcx>,
    body: &Body<'tcx>,
    typing_env: TypingEnv<'tcx>,
    op: &Operand<'tcx>,
) -> J {
    match op {
        Operand::Copy(p) => J::Arr(vec![J::s("c"), place(cx, body, p)]),
        Operand::Move(p) => J::Arr(vec![J::s("m"), place(cx, body, p)]),
        Operand::Constant(c) => const_j(cx, typing_env, c),
        #[allow(unreachable_patterns)]
        other => J::Arr(vec![J::s("o"), J::s(format!("{:?}", other))]),
    }
}

fn rvalue<'tcx>(
    cx: &Ctx<'tcx>,
    body: &Body<'tcx>,
    typing_env: TypingEnv<'tcx>,
    rv: &Rvalue<'tcx>,
) -> J {
    let tcx = cx.tcx;
    match rv {
        Rvalue::Use(op, _) => J::Arr(vec![J::s("use"), operand(cx, body, typing_env, op)]),
        Rvalue::Ref(_, bk, p) => {
            let k = match bk {
                BorrowKind::Shared => "shared",
                BorrowKind::Fake(_) => "fake",
                BorrowKind::Mut { .. } => "mut",
            };
            J::Arr(vec![J::s("ref"), J::s(k), place(cx, body, p)])
        }
        Rvalue::RawPtr(k, p) => {
            J::Arr(vec![J::s("raw"), J::s(format!("{:?}", k)), place(cx, body, p)])
        }
        Rvalue::CopyForDeref(p) => {
            J::Arr(vec![J::s("use"), J::Arr(vec![J::s("c"), place(cx, body, p)])])
        }
        Rvalue::Cast(k, op, ty) => J::Arr(vec![
            J::s("cast"),
            J::s(format!("{:?}", k)),
            operand(cx, body, typing_env, op),
            J::s(cx.ty(*ty)),
        ]),
        Rvalue::BinaryOp(op, ab) => J::Arr(vec![
            J::s("bin"),
            J::s(format!("{:?}", op)),
            operand(cx, body, typing_env, &ab.0),
            operand(cx, body, typing_env, &ab.1),
        ]),
        Rvalue::UnaryOp(op, a) => J::Arr(vec![
            J::s("un"),
            J::s(format!("{:?}", op)),
            operand(cx, body, typing_env, a),
        ]),
        Rvalue::Discriminant(p) => {
            let t = place_ty(cx, body, p);
            let mut vars = vec![];
            let mut adt = J::Null;
            if let ty::Adt(def, _) = t.kind() {
                if def.is_enum() {
                    adt = J::s(cx.path(def.did()));
                    for (vi, d) in def.discriminants(tcx) {
                        vars.push(J::Arr(vec![
                            J::s(format!("{}", d.val)),
                            J::s(def.variant(vi).name.to_string()),
                        ]));
                    }
                }
            }
            J::Arr(vec![J::s("discr"), place(cx, body, p), adt, J::Arr(vars)])
        }
        Rvalue::Aggregate(kind, ops) => {
            let k = match &**kind {
                AggregateKind::Array(_) => J::s("array"),
                AggregateKind::Tuple => J::s("tuple"),
                AggregateKind::Adt(did, vi, _args, _, _) => {
                    let def = tcx.adt_def(*did);
                    let v = def.variant(*vi);
                    J::Arr(vec![
                        J::s("adt"),
                        J::s(cx.path(*did)),
                        J::s(v.name.to_string()),
                        J::Arr(v.fields.iter().map(|f| J::s(f.name.to_string())).collect()),
                    ])
                }
                AggregateKind::Closure(did, _) => {
                    J::Arr(vec![J::s("closure"), J::s(cx.uid(*did))])
                }
                AggregateKind::Coroutine(did, _) => {
                    J::Arr(vec![J::s("coroutine"), J::s(cx.uid(*did))])
                }
                AggregateKind::CoroutineClosure(did, _) => {
                    J::Arr(vec![J::s("coroutine_closure"), J::s(cx.uid(*did))])
                }
                AggregateKind::RawPtr(..) => J::s("rawptr"),
            };
            J::Arr(vec![
                J::s("agg"),
                k,
                J::Arr(ops.iter().map(|o| operand(cx, body, typing_env, o)).collect()),
            ])
        }
        Rvalue::Repeat(op, n) => J::Arr(vec![
            J::s("repeat"),
            operand(cx, body, typing_env, op),
            J::s(format!("{}", n)),
        ]),
        Rvalue::ThreadLocalRef(d) => J::Arr(vec![J::s("tls"), J::s(cx.uid(*d))]),
        other => J::Arr(vec![J::s("other"), J::s(format!("{:?}", other))]),
    }
}

fn stmt<'tcx>(
    cx: &Ctx<'tcx>,
    body: &Body<'tcx>,
    typing_env: TypingEnv<'tcx>,
    st: &Statement<'tcx>,
) -> Option<J> {
    match &st.kind {
        StatementKind::Assign(b) => {
            let (p, rv) = &**b;
            Some(J::Arr(vec![
                J::s("="),
                place(cx, body, p),
                rvalue(cx, body, typing_env, rv),
                sp(cx, st.source_info.span),
            ]))
        }
        StatementKind::StorageDead(l) => Some(J::Arr(vec![J::s("sd"), J::n(l.as_usize())])),
        StatementKind::StorageLive(l) => Some(J::Arr(vec![J::s("sl"), J::n(l.as_usize())])),
        StatementKind::SetDiscriminant { place: p, variant_index } => Some(J::Arr(vec![
            J::s("setdiscr"),
            place(cx, body, p),
            J::n(variant_index.as_usize()),
        ])),
        StatementKind::Intrinsic(i) => {
            Some(J::Arr(vec![J::s("intrinsic"), J::s(format!("{:?}", i))]))
        }
        _ => None,
    }
}

fn unwind(u: &UnwindAction) -> J {
    match u {
        UnwindAction::Cleanup(bb) => J::n(bb.as_usize()),
        _ => J::Null,
    }
}

pub fn callee_info<'tcx>(
    cx: &Ctx<'tcx>,
    typing_env: TypingEnv<'tcx>,
    def: DefId,
    args: ty::GenericArgsRef<'tcx>,
) -> J {
    let tcx = cx.tcx;
    let mut o: Vec<(&'static str, J)> = vec![];
    o.push(("orig", J::s(cx.uid(def))));
    o.push(("orig_name", J::s(cx.path(def))));
    o.push(("full", J::s(cx.path_args(def, args))));
    if let Some(tr) = tcx.trait_of_assoc(def) {
        o.push(("trait", J::s(cx.path(tr))));
        if let Some(st) = args.types().next() {
            o.push(("self_ty", J::s(cx.ty(st))));
        }
    }
    if tcx.intrinsic(def).is_some() {
        o.push(("intrinsic", J::Bool(true)));
    }
    match Instance::try_resolve(tcx, typing_env, def, args) {
        Ok(Some(inst)) => {
            let (k, d) = match inst.def {
                InstanceKind::Item(d) => ("direct", d),
                InstanceKind::Intrinsic(d) => ("intrinsic", d),
                InstanceKind::Virtual(d, _) => ("virtual", d),
                InstanceKind::ClosureOnceShim { call_once, .. } => ("closure_once_shim", call_once),
                InstanceKind::FnPtrShim(d, _) => ("fnptr_shim", d),
                InstanceKind::ReifyShim(d, _) => ("reify_shim", d),
                InstanceKind::VTableShim(d) => ("vtable_shim", d),
                InstanceKind::DropGlue(d, _) => ("drop_glue", d),
                InstanceKind::CloneShim(d, _) => ("clone_shim", d),
                other => ("shim", other.def_id()),
            };
            o.push(("kind", J::s(k)));
            o.push(("def", J::s(cx.uid(d))));
            o.push(("name", J::s(cx.path(d))));
            // for closure shims record the closure being called
            if let InstanceKind::ClosureOnceShim { .. } = inst.def {
                if let Some(st) = inst.args.types().next() {
                    if let ty::Closure(cd, _) = st.kind() {
                        o.push(("closure", J::s(cx.uid(*cd))));
                    }
                }
            }
            if let Some(imp) = tcx.impl_of_assoc(d) {
                let self_ty = tcx.type_of(imp).skip_binder();
                o.push(("impl_self", J::s(cx.ty(self_ty))));
            }
        }
        _ => {
            o.push(("kind", J::s("unresolved")));
        }
    }
    J::Obj(o)
}

fn terminator<'tcx>(
    cx: &Ctx<'tcx>,
    body: &Body<'tcx>,
    typing_env: TypingEnv<'tcx>,
    term: &Terminator<'tcx>,
) -> J {
    let span = sp(cx, term.source_info.span);
    match &term.kind {
        TerminatorKind::Goto { target } => J::Arr(vec![J::s("goto"), J::n(target.as_usize())]),
        TerminatorKind::SwitchInt { discr, targets } => {
            let mut ts = vec![];
            for (v, bb) in targets.iter() {
                ts.push(J::Arr(vec![J::s(format!("{}", v)), J::n(bb.as_usize())]));
            }
            J::Arr(vec![
                J::s("switch"),
                operand(cx, body, typing_env, discr),
                J::Arr(ts),
                J::n(targets.otherwise().as_usize()),
                J::s(cx.ty(discr.ty(&body.local_decls, cx.tcx))),
                span,
            ])
        }
        TerminatorKind::Return => J::Arr(vec![J::s("ret")]),
        TerminatorKind::Unreachable => J::Arr(vec![J::s("unreachable")]),
        TerminatorKind::UnwindResume => J::Arr(vec![J::s("resume")]),
        TerminatorKind::UnwindTerminate(_) => J::Arr(vec![J::s("terminate")]),
        TerminatorKind::Drop { place: p, target, unwind: u, .. } => J::Arr(vec![
            J::s("drop"),
            place(cx, body, p),
            J::s(cx.ty(place_ty(cx, body, p))),
            J::n(target.as_usize()),
            unwind(u),
            span,
        ]),
        TerminatorKind::Call { func, args, destination, target, unwind: u, fn_span, .. } => {
            let callee = match func {
                Operand::Constant(c) => match c.const_.ty().kind() {
                    ty::FnDef(def, gargs) => callee_info(cx, typing_env, *def, gargs),
                    _ => J::Obj(vec![
                        ("kind", J::s("fnptr_const")),
                        ("ty", J::s(cx.ty(c.const_.ty()))),
                    ]),
                },
                Operand::Copy(p) | Operand::Move(p) => J::Obj(vec![
                    ("kind", J::s("indirect")),
                    ("place", place(cx, body, p)),
                    ("ty", J::s(cx.ty(place_ty(cx, body, p)))),
                ]),
                #[allow(unreachable_patterns)]
                _ => J::Obj(vec![("kind", J::s("unknown"))]),
            };
            J::Arr(vec![
                J::s("call"),
                callee,
                J::Arr(args.iter().map(|a| operand(cx, body, typing_env, &a.node)).collect()),
                place(cx, body, destination),
                J::opt(target.map(|t| J::n(t.as_usize()))),
                unwind(u),
                span,
                sp(cx, *fn_span),
            ])
        }
        TerminatorKind::Assert { cond, expected, msg, target, unwind: u } => {
            let kind = match &**msg {
                AssertKind::BoundsCheck { .. } => "BoundsCheck".to_string(),
                AssertKind::Overflow(op, ..) => format!("Overflow({:?})", op),
                AssertKind::OverflowNeg(_) => "OverflowNeg".to_string(),
                AssertKind::DivisionByZero(_) => "DivisionByZero".to_string(),
                AssertKind::RemainderByZero(_) => "RemainderByZero".to_string(),
                AssertKind::ResumedAfterReturn(_) => "ResumedAfterReturn".to_string(),
                AssertKind::ResumedAfterPanic(_) => "ResumedAfterPanic".to_string(),
                AssertKind::ResumedAfterDrop(_) => "ResumedAfterDrop".to_string(),
                AssertKind::MisalignedPointerDereference { .. } => "Misaligned".to_string(),
                AssertKind::NullPointerDereference => "NullDeref".to_string(),
                AssertKind::InvalidEnumConstruction(_) => "InvalidEnum".to_string(),
            };
            J::Arr(vec![
                J::s("assert"),
                operand(cx, body, typing_env, cond),
                J::Bool(*expected),
                J::s(kind),
                J::n(target.as_usize()),
                unwind(u),
                span,
            ])
        }
        TerminatorKind::Yield { value, resume, drop, .. } => J::Arr(vec![
            J::s("yield"),
            operand(cx, body, typing_env, value),
            J::n(resume.as_usize()),
            J::opt(drop.map(|d| J::n(d.as_usize()))),
        ]),
        TerminatorKind::CoroutineDrop => J::Arr(vec![J::s("coroutine_drop")]),
        TerminatorKind::FalseEdge { real_target, .. } => {
            J::Arr(vec![J::s("goto"), J::n(real_target.as_usize())])
        }
        TerminatorKind::FalseUnwind { real_target, .. } => {
            J::Arr(vec![J::s("goto"), J::n(real_target.as_usize())])
        }
        TerminatorKind::TailCall { .. } => J::Arr(vec![J::s("tailcall")]),
        TerminatorKind::InlineAsm { .. } => J::Arr(vec![J::s("asm")]),
    }
}
