//! ADTs, impls, consts/statics, type facts.
use crate::json::J;
use crate::Ctx;
use rustc_hir::def::DefKind;
use rustc_middle::mir::{Const, ConstValue};
use rustc_middle::ty::{self, Ty, TypingEnv};
use std::collections::HashSet;

pub fn dump<'tcx>(cx: &Ctx<'tcx>, top: &mut Vec<(&'static str, J)>) {
    let tcx = cx.tcx;
    let mut adts = vec![];
    let mut impls = vec![];
    let mut consts = vec![];
    let mut traits = vec![];
    let mut defs: Vec<_> = tcx.hir_crate_items(()).definitions().collect();
    defs.sort_by_key(|d| cx.uid(d.to_def_id()));
    for ldid in defs {
        let did = ldid.to_def_id();
        match tcx.def_kind(did) {
            DefKind::Struct | DefKind::Enum | DefKind::Union => {
                let def = tcx.adt_def(did);
                let mut variants = vec![];
                for v in def.variants().iter() {
                    let mut fields = vec![];
                    for f in v.fields.iter() {
                        let fty = tcx.type_of(f.did).instantiate_identity().skip_norm_wip();
                        fields.push(J::Arr(vec![
                            J::s(f.name.to_string()),
                            J::s(cx.ty(fty)),
                            J::Bool(f.vis.is_public()),
                        ]));
                    }
                    variants.push(J::Obj(vec![
                        ("name", J::s(v.name.to_string())),
                        ("fields", J::Arr(fields)),
                    ]));
                }
                let self_ty = tcx.type_of(did).instantiate_identity().skip_norm_wip();
                let typing_env = TypingEnv::post_analysis(tcx, did);
                let mut cells = vec![];
                let mut seen = HashSet::new();
                walk_cells(cx, self_ty, &mut String::new(), &mut cells, &mut seen, 0);
                adts.push((
                    cx.uid(did),
                    J::Obj(vec![
                        ("name", J::s(cx.path(did))),
                        ("kind", J::s(format!("{:?}", tcx.def_kind(did)))),
                        ("pub", J::Bool(tcx.visibility(did).is_public())),
                        ("span", cx.span(tcx.def_span(did))),
                        ("generics", J::n(tcx.generics_of(did).own_params.len())),
                        ("variants", J::Arr(variants)),
                        ("freeze", J::Bool(self_ty.is_freeze(tcx, typing_env))),
                        ("needs_drop", J::Bool(self_ty.needs_drop(tcx, typing_env))),
                        ("copy", J::Bool(tcx.type_is_copy_modulo_regions(typing_env, self_ty))),
                        ("cells", J::Arr(cells)),
                    ]),
                ));
            }
            DefKind::Impl { of_trait } => {
                let self_ty = tcx.type_of(did).instantiate_identity().skip_norm_wip();
                let mut o = vec![
                    ("self", J::s(cx.ty(self_ty))),
                    ("span", cx.span(tcx.def_span(did))),
                ];
                if let ty::Adt(d, _) = self_ty.kind() {
                    o.push(("self_adt", J::s(cx.path(d.did()))));
                }
                if of_trait {
                    let tr = tcx.impl_trait_ref(did).skip_binder();
                    o.push(("trait", J::s(cx.path(tr.def_id))));
                    o.push(("trait_full", J::s(cx.path_args(tr.def_id, tr.args))));
                    let item = tcx.hir_expect_item(ldid);
                    if let rustc_hir::ItemKind::Impl(imp) = &item.kind {
                        if let Some(h) = imp.of_trait {
                            o.push(("unsafe", J::Bool(h.safety.is_unsafe())));
                            o.push((
                                "negative",
                                J::Bool(matches!(h.polarity, rustc_hir::ImplPolarity::Negative(_))),
                            ));
                        }
                    }
                }
                let items: Vec<J> = tcx
                    .associated_items(did)
                    .in_definition_order()
                    .filter_map(|a| a.opt_name().map(|n| J::s(n.to_string())))
                    .collect();
                o.push(("items", J::Arr(items)));
                o.push(("expn", J::Bool(tcx.def_span(did).from_expansion())));
                impls.push((cx.uid(did), J::Obj(o)));
            }
            DefKind::Trait => {
                traits.push((cx.uid(did), J::Obj(vec![("name", J::s(cx.path(did)))])));
            }
            k @ (DefKind::Const { .. } | DefKind::Static { .. } | DefKind::AssocConst { .. }) => {
                let ty = tcx.type_of(did).instantiate_identity().skip_norm_wip();
                let typing_env = TypingEnv::post_analysis(tcx, did);
                let mut o = vec![
                    ("name", J::s(cx.path(did))),
                    ("kind", J::s(format!("{:?}", k))),
                    ("ty", J::s(cx.ty(ty))),
                    ("span", cx.span(tcx.def_span(did))),
                ];
                use rustc_middle::ty::TypeVisitableExt;
                let generic = tcx.generics_of(did).count() > 0 || ty.has_non_region_param();
                if let DefKind::Static { mutability, nested, .. } = k {
                    o.push(("mut", J::Bool(mutability.is_mut())));
                    o.push(("nested", J::Bool(nested)));
                    o.push(("freeze", J::Bool(ty.is_freeze(tcx, typing_env))));
                    if !nested {
                        if let Ok(alloc) = tcx.eval_static_initializer(did) {
                            let a = alloc.inner();
                            o.push(("size", J::n(a.len())));
                            if a.len() <= 64 && a.provenance().ptrs().is_empty() {
                                let bytes =
                                    a.inspect_with_uninit_and_ptr_outside_interpreter(0..a.len());
                                let hex: String =
                                    bytes.iter().map(|b| format!("{:02x}", b)).collect();
                                o.push(("bytes", J::s(hex)));
                            }
                            if (ty.is_integral() || ty.is_bool() || ty.is_char())
                                && a.len() <= 16
                                && a.provenance().ptrs().is_empty()
                            {
                                let bytes =
                                    a.inspect_with_uninit_and_ptr_outside_interpreter(0..a.len());
                                let mut v: u128 = 0;
                                for (i, b) in bytes.iter().enumerate() {
                                    v |= (*b as u128) << (8 * i);
                                }
                                o.push(("int", J::s(format!("{}", v))));
                            }
                            if a.provenance().ptrs().is_empty() && a.len() <= 1 << 16 {
                                let id = tcx.reserve_and_set_memory_alloc(alloc);
                                let v = ConstValue::Indirect {
                                    alloc_id: id,
                                    offset: rustc_abi::Size::ZERO,
                                };
                                let s = format!("{}", Const::Val(v, ty));
                                o.push(("value", J::s(s)));
                            }
                        }
                    }
                } else if !generic {
                    if let Ok(v) = tcx.const_eval_poly(did) {
                        let s = format!("{}", Const::Val(v, ty));
                        o.push(("value", J::s(s)));
                        if ty.is_integral() || ty.is_bool() || ty.is_char() {
                            if let Some(si) = Const::Val(v, ty).try_eval_scalar_int(tcx, typing_env)
                            {
                                let bits = si.to_bits(si.size());
                                let s = if ty.is_signed() {
                                    format!("{}", si.size().sign_extend(bits) as i128)
                                } else {
                                    format!("{}", bits)
                                };
                                o.push(("int", J::s(s)));
                            }
                        }
                    }
                }
                consts.push((cx.uid(did), J::Obj(o)));
            }
            _ => {}
        }
    }
    top.push(("adts", J::Map(adts)));
    top.push(("impls", J::Map(impls)));
    top.push(("traits", J::Map(traits)));
    top.push(("consts", J::Map(consts)));
}

/// Deep walk through a type's fields (and pointee / generic payloads) listing every
/// interior-mutability-bearing std type reachable, with its field path.
fn walk_cells<'tcx>(
    cx: &Ctx<'tcx>,
    ty: Ty<'tcx>,
    path: &mut String,
    out: &mut Vec<J>,
    seen: &mut HashSet<Ty<'tcx>>,
    depth: usize,
) {
    let tcx = cx.tcx;
    if depth > 40 || !seen.insert(ty) {
        return;
    }
    if std::env::var("VERIF_DEBUG_WALK").is_ok() {
        eprintln!("WALK {} {} {:?}", depth, path, ty.kind());
    }
    match ty.kind() {
        ty::Adt(def, args) => {
            let name = cx.path(def.did());
            let krate = tcx.crate_name(def.did().krate).to_string();
            let last = name.rsplit("::").next().unwrap_or("").to_string();
            let std_like = ["core", "std", "alloc", "once_cell", "parking_lot", "lock_api"];
            let cell_names = [
                "UnsafeCell", "Cell", "RefCell", "OnceCell", "LazyCell", "OnceLock", "Mutex",
                "RwLock", "LazyLock", "Once", "Lazy", "SyncUnsafeCell", "Condvar",
            ];
            if std_like.contains(&krate.as_str())
                && (cell_names.contains(&last.as_str()) || last.starts_with("Atomic"))
            {
                out.push(J::Arr(vec![J::s(path.clone()), J::s(cx.ty(ty))]));
                // still walk the payload (e.g. OnceLock<Source>)
                for t in args.types() {
                    let l = path.len();
                    path.push_str("<>");
                    walk_cells(cx, t, path, out, seen, depth + 1);
                    path.truncate(l);
                }
                return;
            }
            if def.is_phantom_data() {
                // type-erased containers (RawVec) carry their element type only here
                for t in args.types() {
                    walk_cells(cx, t, path, out, seen, depth + 1);
                }
                return;
            }
            for v in def.variants().iter() {
                for f in v.fields.iter() {
                    let fty = f.ty(tcx, args);
                    let l = path.len();
                    if def.is_enum() {
                        path.push_str(&format!(".{}::{}", v.name, f.name));
                    } else {
                        path.push_str(&format!(".{}", f.name));
                    }
                    walk_cells(cx, fty, path, out, seen, depth + 1);
                    path.truncate(l);
                }
            }
        }
        ty::Ref(_, t, _) | ty::RawPtr(t, _) | ty::Slice(t) | ty::Array(t, _) => {
            let l = path.len();
            path.push_str(".*");
            walk_cells(cx, *t, path, out, seen, depth + 1);
            path.truncate(l);
        }
        ty::Pat(t, _) => {
            walk_cells(cx, *t, path, out, seen, depth + 1);
        }
        ty::Tuple(ts) => {
            for (i, t) in ts.iter().enumerate() {
                let l = path.len();
                path.push_str(&format!(".{}", i));
                walk_cells(cx, t, path, out, seen, depth + 1);
                path.truncate(l);
            }
        }
        ty::Dynamic(..) => {
            out.push(J::Arr(vec![J::s(path.clone()), J::s(format!("dyn:{}", cx.ty(ty)))]));
        }
        _ => {}
    }
}
