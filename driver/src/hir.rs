//! HIR-lite dump: expression / pattern trees with resolved paths.
use crate::json::J;
use crate::Ctx;
use rustc_ast::ast::LitKind;
use rustc_hir as hir;
use rustc_hir::def::{DefKind, Res};
use rustc_hir::{ExprKind, PatExprKind, PatKind, QPath, StmtKind};
use rustc_middle::ty::TypeckResults;

struct H<'a, 'tcx> {
    cx: &'a Ctx<'tcx>,
    tr: &'tcx TypeckResults<'tcx>,
}

pub fn dump_all<'tcx>(cx: &Ctx<'tcx>) -> J {
    let tcx = cx.tcx;
    let mut out: Vec<(String, J)> = vec![];
    let mut owners: Vec<_> = tcx.hir_body_owners().collect();
    owners.sort_by_key(|d| cx.uid(d.to_def_id()));
    for ldid in owners {
        let did = ldid.to_def_id();
        let kind = tcx.def_kind(did);
        match kind {
            DefKind::Fn
            | DefKind::AssocFn
            | DefKind::Const { .. }
            | DefKind::Static { .. }
            | DefKind::AssocConst { .. } => {}
            _ => continue,
        }
        let Some(body) = tcx.hir_maybe_body_owned_by(ldid) else { continue };
        let tr = tcx.typeck(ldid);
        let h = H { cx, tr };
        let params: Vec<J> = body.params.iter().map(|p| h.pat(p.pat)).collect();
        let o = vec![
            ("name", J::s(cx.path(did))),
            ("kind", J::s(format!("{:?}", kind))),
            ("span", cx.span(tcx.def_span(did))),
            ("params", J::Arr(params)),
            ("body", h.expr(body.value)),
        ];
        out.push((cx.uid(did), J::Obj(o)));
    }
    J::Map(out)
}

impl<'a, 'tcx> H<'a, 'tcx> {
    fn line(&self, sp: rustc_span::Span) -> (J, bool) {
        let cs = self.cx.callsite(sp);
        let lo = self.cx.tcx.sess.source_map().lookup_char_pos(cs.lo());
        (J::n(lo.line), sp.from_expansion())
    }

    fn res(&self, r: Res) -> J {
        match r {
            Res::Def(kind, did) => {
                let k = match kind {
                    DefKind::Ctor(of, _) => format!("ctor:{:?}", of),
                    other => format!("{:?}", other),
                };
                let mut v = vec![J::s("def"), J::s(k), J::s(self.cx.path(did)), J::s(self.cx.uid(did))];
                // for constructors also give the variant / struct path
                if let DefKind::Ctor(..) = kind {
                    let parent = self.cx.tcx.parent(did);
                    v.push(J::s(self.cx.path(parent)));
                }
                J::Arr(v)
            }
            Res::Local(id) => J::Arr(vec![
                J::s("local"),
                J::s(self.cx.tcx.hir_name(id).to_string()),
                J::n(id.local_id.as_usize()),
            ]),
            Res::SelfCtor(d) => J::Arr(vec![J::s("selfctor"), J::s(self.cx.path(d))]),
            Res::SelfTyAlias { alias_to, .. } => {
                J::Arr(vec![J::s("selfty"), J::s(self.cx.path(alias_to))])
            }
            Res::SelfTyParam { .. } => J::Arr(vec![J::s("selftyparam")]),
            Res::PrimTy(p) => J::Arr(vec![J::s("prim"), J::s(p.name_str())]),
            other => J::Arr(vec![J::s("other"), J::s(format!("{:?}", other))]),
        }
    }

    fn qpath(&self, q: &QPath<'tcx>, id: hir::HirId) -> J {
        self.res(self.tr.qpath_res(q, id))
    }

    fn lit(&self, l: &hir::Lit, negated: bool) -> J {
        let (t, v) = match &l.node {
            LitKind::Str(s, _) => ("str", J::s(s.to_string())),
            LitKind::ByteStr(b, _) => (
                "bytes",
                J::Arr(b.as_byte_str().iter().map(|x| J::n(*x)).collect()),
            ),
            LitKind::CStr(b, _) => (
                "cstr",
                J::Arr(b.as_byte_str().iter().map(|x| J::n(*x)).collect()),
            ),
            LitKind::Byte(b) => ("byte", J::n(*b)),
            LitKind::Char(c) => ("char", J::n(*c as u32)),
            LitKind::Int(n, _) => {
                let v = n.get() as i128;
                ("int", J::Num(if negated { -v } else { v }))
            }
            LitKind::Float(s, _) => ("float", J::s(format!("{}{}", if negated { "-" } else { "" }, s))),
            LitKind::Bool(b) => ("bool", J::Bool(*b)),
            LitKind::Err(_) => ("err", J::Null),
        };
        J::Obj(vec![("k", J::s("lit")), ("t", J::s(t)), ("v", v)])
    }

    fn pat_expr(&self, pe: &hir::PatExpr<'tcx>) -> J {
        match &pe.kind {
            PatExprKind::Lit { lit, negated } => self.lit(lit, *negated),
            PatExprKind::Path(q) => {
                J::Obj(vec![("k", J::s("path")), ("res", self.qpath(q, pe.hir_id))])
            }
        }
    }

    fn pat(&self, p: &hir::Pat<'tcx>) -> J {
        match &p.kind {
            PatKind::Wild | PatKind::Missing => J::Obj(vec![("k", J::s("_"))]),
            PatKind::Never => J::Obj(vec![("k", J::s("never"))]),
            PatKind::Binding(mode, id, ident, sub) => {
                let mut o = vec![
                    ("k", J::s("bind")),
                    ("name", J::s(ident.name.to_string())),
                    ("id", J::n(id.local_id.as_usize())),
                    ("mode", J::s(format!("{:?}", mode).replace("BindingMode", ""))),
                ];
                if let Some(s) = sub {
                    o.push(("sub", self.pat(s)));
                }
                if let Some(t) = self.tr.node_type_opt(p.hir_id) {
                    o.push(("ty", J::s(self.cx.ty(t))));
                }
                J::Obj(o)
            }
            PatKind::Struct(q, fields, rest) => J::Obj(vec![
                ("k", J::s("struct")),
                ("res", self.qpath(q, p.hir_id)),
                (
                    "fields",
                    J::Arr(
                        fields
                            .iter()
                            .map(|f| J::Arr(vec![J::s(f.ident.name.to_string()), self.pat(f.pat)]))
                            .collect(),
                    ),
                ),
                ("rest", J::Bool(rest.is_some())),
            ]),
            PatKind::TupleStruct(q, subs, ddpos) => J::Obj(vec![
                ("k", J::s("tstruct")),
                ("res", self.qpath(q, p.hir_id)),
                ("subs", J::Arr(subs.iter().map(|s| self.pat(s)).collect())),
                ("dd", J::opt(ddpos.as_opt_usize().map(J::n))),
            ]),
            PatKind::Or(ps) => J::Obj(vec![
                ("k", J::s("or")),
                ("pats", J::Arr(ps.iter().map(|s| self.pat(s)).collect())),
            ]),
            PatKind::Tuple(ps, ddpos) => J::Obj(vec![
                ("k", J::s("tuple")),
                ("pats", J::Arr(ps.iter().map(|s| self.pat(s)).collect())),
                ("dd", J::opt(ddpos.as_opt_usize().map(J::n))),
            ]),
            PatKind::Box(s) | PatKind::Deref(s) | PatKind::Ref(s, _, _) => {
                J::Obj(vec![("k", J::s("ref")), ("p", self.pat(s))])
            }
            PatKind::Expr(pe) => self.pat_expr(pe),
            PatKind::Guard(s, e) => {
                J::Obj(vec![("k", J::s("guard")), ("p", self.pat(s)), ("g", self.expr(e))])
            }
            PatKind::Range(lo, hi, end) => J::Obj(vec![
                ("k", J::s("range")),
                ("lo", J::opt(lo.map(|e| self.pat_expr(e)))),
                ("hi", J::opt(hi.map(|e| self.pat_expr(e)))),
                ("incl", J::Bool(matches!(end, hir::RangeEnd::Included))),
            ]),
            PatKind::Slice(before, mid, after) => J::Obj(vec![
                ("k", J::s("slice")),
                ("before", J::Arr(before.iter().map(|s| self.pat(s)).collect())),
                ("mid", J::opt(mid.map(|s| self.pat(s)))),
                ("after", J::Arr(after.iter().map(|s| self.pat(s)).collect())),
            ]),
            PatKind::Err(_) => J::Obj(vec![("k", J::s("err"))]),
        }
    }

    fn block(&self, b: &hir::Block<'tcx>) -> Vec<(&'static str, J)> {
        let mut stmts = vec![];
        for s in b.stmts {
            match &s.kind {
                StmtKind::Let(l) => {
                    let mut o = vec![("k", J::s("slet")), ("pat", self.pat(l.pat))];
                    if let Some(i) = l.init {
                        o.push(("init", self.expr(i)));
                    }
                    if let Some(e) = l.els {
                        let mut eb = self.block(e);
                        eb.insert(0, ("k", J::s("block")));
                        o.push(("els", J::Obj(eb)));
                    }
                    let (l_, _) = self.line(l.span);
                    o.push(("l", l_));
                    stmts.push(J::Obj(o));
                }
                StmtKind::Item(_) => {}
                StmtKind::Expr(e) => stmts.push(self.expr(e)),
                StmtKind::Semi(e) => {
                    stmts.push(J::Obj(vec![("k", J::s("semi")), ("e", self.expr(e))]))
                }
            }
        }
        let mut o = vec![("stmts", J::Arr(stmts))];
        if let Some(e) = b.expr {
            o.push(("expr", self.expr(e)));
        }
        if let hir::BlockCheckMode::UnsafeBlock(src) = b.rules {
            o.push((
                "unsafe",
                J::s(match src {
                    hir::UnsafeSource::UserProvided => "user",
                    hir::UnsafeSource::CompilerGenerated => "compiler",
                }),
            ));
        }
        o
    }

    fn expr(&self, e: &hir::Expr<'tcx>) -> J {
        let tcx = self.cx.tcx;
        let mut o: Vec<(&'static str, J)> = vec![];
        let (line, expn) = self.line(e.span);
        macro_rules! k {
            ($s:expr) => {
                o.push(("k", J::s($s)))
            };
        }
        match &e.kind {
            ExprKind::DropTemps(inner) | ExprKind::Use(inner, _) | ExprKind::Type(inner, _) => {
                return self.expr(inner)
            }
            ExprKind::ConstBlock(_) => k!("constblock"),
            ExprKind::Array(es) => {
                k!("array");
                o.push(("es", J::Arr(es.iter().map(|x| self.expr(x)).collect())));
            }
            ExprKind::Call(f, args) => {
                k!("call");
                // resolve callee if path
                if let ExprKind::Path(q) = &f.kind {
                    o.push(("callee", self.qpath(q, f.hir_id)));
                } else {
                    o.push(("f", self.expr(f)));
                }
                if let Some(d) = self.tr.type_dependent_def_id(e.hir_id) {
                    o.push(("overload", J::s(self.cx.path(d))));
                }
                o.push(("args", J::Arr(args.iter().map(|x| self.expr(x)).collect())));
            }
            ExprKind::MethodCall(seg, recv, args, _) => {
                k!("mcall");
                o.push(("m", J::s(seg.ident.name.to_string())));
                if let Some(d) = self.tr.type_dependent_def_id(e.hir_id) {
                    o.push(("callee", J::s(self.cx.path(d))));
                    o.push(("callee_uid", J::s(self.cx.uid(d))));
                }
                if let Some(t) = self.tr.expr_ty_opt(recv) {
                    o.push(("recv_ty", J::s(self.cx.ty(t))));
                }
                o.push(("recv", self.expr(recv)));
                o.push(("args", J::Arr(args.iter().map(|x| self.expr(x)).collect())));
            }
            ExprKind::Tup(es) => {
                k!("tup");
                o.push(("es", J::Arr(es.iter().map(|x| self.expr(x)).collect())));
            }
            ExprKind::Binary(op, a, b) => {
                k!("bin");
                o.push(("op", J::s(op.node.as_str())));
                if let Some(d) = self.tr.type_dependent_def_id(e.hir_id) {
                    o.push(("overload", J::s(self.cx.path(d))));
                }
                if let Some(t) = self.tr.expr_ty_opt(a) {
                    o.push(("lty", J::s(self.cx.ty(t))));
                }
                o.push(("a", self.expr(a)));
                o.push(("b", self.expr(b)));
            }
            ExprKind::Unary(op, a) => {
                k!("un");
                o.push(("op", J::s(op.as_str())));
                if let Some(d) = self.tr.type_dependent_def_id(e.hir_id) {
                    o.push(("overload", J::s(self.cx.path(d))));
                }
                o.push(("a", self.expr(a)));
            }
            ExprKind::Lit(l) => {
                return self.lit(l, false);
            }
            ExprKind::Cast(a, _) => {
                k!("cast");
                o.push(("e", self.expr(a)));
                if let Some(t) = self.tr.expr_ty_opt(e) {
                    o.push(("ty", J::s(self.cx.ty(t))));
                }
            }
            ExprKind::Let(l) => {
                k!("let");
                o.push(("pat", self.pat(l.pat)));
                o.push(("init", self.expr(l.init)));
            }
            ExprKind::If(c, t, el) => {
                k!("if");
                o.push(("cond", self.expr(c)));
                o.push(("then", self.expr(t)));
                if let Some(x) = el {
                    o.push(("else", self.expr(x)));
                }
            }
            ExprKind::Loop(b, _, src, _) => {
                k!("loop");
                o.push(("src", J::s(format!("{:?}", src))));
                let mut bb = self.block(b);
                bb.insert(0, ("k", J::s("block")));
                o.push(("body", J::Obj(bb)));
            }
            ExprKind::Match(scrut, arms, src) => {
                k!("match");
                let s = match src {
                    hir::MatchSource::Normal => "normal",
                    hir::MatchSource::Postfix => "postfix",
                    hir::MatchSource::ForLoopDesugar => "for",
                    hir::MatchSource::TryDesugar(_) => "try",
                    hir::MatchSource::AwaitDesugar => "await",
                    hir::MatchSource::FormatArgs => "fmt",
                };
                o.push(("src", J::s(s)));
                if let Some(t) = self.tr.expr_ty_opt(scrut) {
                    o.push(("sty", J::s(self.cx.ty(t))));
                }
                o.push(("scrut", self.expr(scrut)));
                let mut av = vec![];
                for a in *arms {
                    let mut ao = vec![("pat", self.pat(a.pat))];
                    if let Some(g) = a.guard {
                        ao.push(("guard", self.expr(g)));
                    }
                    ao.push(("body", self.expr(a.body)));
                    let (al, _) = self.line(a.span);
                    ao.push(("l", al));
                    av.push(J::Obj(ao));
                }
                o.push(("arms", J::Arr(av)));
            }
            ExprKind::Closure(c) => {
                k!("closure");
                o.push(("def", J::s(self.cx.uid(c.def_id.to_def_id()))));
                o.push(("ckind", J::s(format!("{:?}", c.kind))));
                let body = tcx.hir_body(c.body);
                o.push(("params", J::Arr(body.params.iter().map(|p| self.pat(p.pat)).collect())));
                o.push(("body", self.expr(body.value)));
            }
            ExprKind::Block(b, _) => {
                k!("block");
                o.extend(self.block(b));
            }
            ExprKind::Assign(l, r, _) => {
                k!("assign");
                o.push(("lhs", self.expr(l)));
                o.push(("rhs", self.expr(r)));
            }
            ExprKind::AssignOp(op, l, r) => {
                k!("assignop");
                o.push(("op", J::s(op.node.as_str())));
                if let Some(d) = self.tr.type_dependent_def_id(e.hir_id) {
                    o.push(("overload", J::s(self.cx.path(d))));
                }
                o.push(("lhs", self.expr(l)));
                o.push(("rhs", self.expr(r)));
            }
            ExprKind::Field(b, ident) => {
                k!("field");
                o.push(("name", J::s(ident.name.to_string())));
                if let Some(t) = self.tr.expr_ty_opt(b) {
                    o.push(("bty", J::s(self.cx.ty(t))));
                }
                o.push(("e", self.expr(b)));
            }
            ExprKind::Index(b, i, _) => {
                k!("index");
                if let Some(d) = self.tr.type_dependent_def_id(e.hir_id) {
                    o.push(("overload", J::s(self.cx.path(d))));
                }
                if let Some(t) = self.tr.expr_ty_opt(b) {
                    o.push(("bty", J::s(self.cx.ty(t))));
                }
                o.push(("e", self.expr(b)));
                o.push(("i", self.expr(i)));
            }
            ExprKind::Path(q) => {
                k!("path");
                o.push(("res", self.qpath(q, e.hir_id)));
            }
            ExprKind::AddrOf(_, m, a) => {
                k!("ref");
                o.push(("mut", J::Bool(m.is_mut())));
                o.push(("e", self.expr(a)));
            }
            ExprKind::Break(_, v) => {
                k!("break");
                if let Some(x) = v {
                    o.push(("e", self.expr(x)));
                }
            }
            ExprKind::Continue(_) => k!("continue"),
            ExprKind::Ret(v) => {
                k!("ret");
                if let Some(x) = v {
                    o.push(("e", self.expr(x)));
                }
            }
            ExprKind::Become(x) => {
                k!("become");
                o.push(("e", self.expr(x)));
            }
            ExprKind::InlineAsm(_) => k!("asm"),
            ExprKind::OffsetOf(..) => k!("offsetof"),
            ExprKind::Struct(q, fields, tail) => {
                k!("struct");
                o.push(("res", self.qpath(q, e.hir_id)));
                if let Some(t) = self.tr.expr_ty_opt(e) {
                    o.push(("ty", J::s(self.cx.ty(t))));
                }
                o.push((
                    "fields",
                    J::Arr(
                        fields
                            .iter()
                            .map(|f| J::Arr(vec![J::s(f.ident.name.to_string()), self.expr(f.expr)]))
                            .collect(),
                    ),
                ));
                match tail {
                    hir::StructTailExpr::Base(b) => o.push(("base", self.expr(b))),
                    hir::StructTailExpr::DefaultFields(_) => o.push(("base", J::s("default"))),
                    _ => {}
                }
            }
            ExprKind::Repeat(x, _) => {
                k!("repeat");
                o.push(("e", self.expr(x)));
            }
            ExprKind::Yield(x, src) => {
                k!("yield");
                o.push(("src", J::s(format!("{:?}", src))));
                o.push(("e", self.expr(x)));
            }
            ExprKind::UnsafeBinderCast(_, x, _) => {
                k!("ubcast");
                o.push(("e", self.expr(x)));
            }
            ExprKind::Err(_) => k!("err"),
        }
        o.push(("l", line));
        if expn {
            o.push(("x", J::Num(1)));
            if let Some(m) = self.cx.macro_name(e.span) {
                // only record macro name on calls / matches / structs to limit size
                if matches!(
                    e.kind,
                    ExprKind::Call(..) | ExprKind::MethodCall(..) | ExprKind::Match(..) | ExprKind::If(..)
                ) || matches!(e.kind, ExprKind::Block(b, _) if !matches!(b.rules, hir::BlockCheckMode::DefaultBlock))
                {
                    o.push(("mac", J::s(m)));
                }
            }
        }
        J::Obj(o)
    }
}
