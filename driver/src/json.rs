//! Minimal JSON value + writer (no dependencies).
use std::fmt::Write;

#[derive(Clone, Debug)]
pub enum J {
    Null,
    Bool(bool),
    Num(i128),
    Str(String),
    Arr(Vec<J>),
    Obj(Vec<(&'static str, J)>),
    Map(Vec<(String, J)>),
}

impl J {
    pub fn s<S: Into<String>>(s: S) -> J {
        J::Str(s.into())
    }
    pub fn n<N: TryInto<i128>>(n: N) -> J {
        J::Num(n.try_into().ok().unwrap_or(-1))
    }
    pub fn opt(o: Option<J>) -> J {
        o.unwrap_or(J::Null)
    }
    pub fn write(&self, out: &mut String) {
        match self {
            J::Null => out.push_str("null"),
            J::Bool(b) => out.push_str(if *b { "true" } else { "false" }),
            J::Num(n) => {
                let _ = write!(out, "{}", n);
            }
            J::Str(s) => write_str(s, out),
            J::Arr(v) => {
                out.push('[');
                for (i, x) in v.iter().enumerate() {
                    if i > 0 {
                        out.push(',');
                    }
                    x.write(out);
                }
                out.push(']');
            }
            J::Obj(v) => {
                out.push('{');
                for (i, (k, x)) in v.iter().enumerate() {
                    if i > 0 {
                        out.push(',');
                    }
                    write_str(k, out);
                    out.push(':');
                    x.write(out);
                }
                out.push('}');
            }
            J::Map(v) => {
                out.push('{');
                for (i, (k, x)) in v.iter().enumerate() {
                    if i > 0 {
                        out.push(',');
                    }
                    write_str(k, out);
                    out.push(':');
                    x.write(out);
                }
                out.push('}');
            }
        }
    }
}

fn write_str(s: &str, out: &mut String) {
    out.push('"');
    for c in s.chars() {
        match c {
            '"' => out.push_str("\\\""),
            '\\' => out.push_str("\\\\"),
            '\n' => out.push_str("\\n"),
            '\r' => out.push_str("\\r"),
            '\t' => out.push_str("\\t"),
            c if (c as u32) < 0x20 => {
                let _ = write!(out, "\\u{:04x}", c as u32);
            }
            c => out.push(c),
        }
    }
    out.push('"');
}
