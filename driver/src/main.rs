//! verif-driver: a rustc_private driver that dumps facts about the type-checked
//! program (items, MIR-lite, HIR-lite, consts, ADTs, impls, unsafe blocks, type facts)
//! as one JSON file per crate into $VERIF_FACTS_DIR.
//!
//! Used as RUSTC_WORKSPACE_WRAPPER: argv[1] is the real rustc path and is dropped.
#![feature(rustc_private)]
#![allow(clippy::all)]

extern crate rustc_abi;
extern crate rustc_ast;
extern crate rustc_data_structures;
extern crate rustc_driver;
extern crate rustc_hir;
extern crate rustc_infer;
extern crate rustc_interface;
extern crate rustc_middle;
extern crate rustc_session;
extern crate rustc_span;
extern crate rustc_trait_selection;

mod hir;
mod items;
mod json;
mod mir;

use json::J;
use rustc_driver::Compilation;
use rustc_middle::ty::TyCtxt;

pub struct Ctx<'tcx> {
    pub tcx: TyCtxt<'tcx>,
}

impl<'tcx> Ctx<'tcx> {
    pub fn path(&self, did: rustc_hir::def_id::DefId) -> String {
        use rustc_middle::ty::print::{with_no_trimmed_paths, with_resolve_crate_name};
        with_resolve_crate_name!(with_no_trimmed_paths!(self.tcx.def_path_str(did)))
    }
    pub fn path_args(
        &self,
        did: rustc_hir::def_id::DefId,
        args: rustc_middle::ty::GenericArgsRef<'tcx>,
    ) -> String {
        use rustc_middle::ty::print::{with_no_trimmed_paths, with_resolve_crate_name};
        with_resolve_crate_name!(with_no_trimmed_paths!(self
            .tcx
            .def_path_str_with_args(did, args)))
    }
    pub fn ty(&self, ty: rustc_middle::ty::Ty<'tcx>) -> String {
        use rustc_middle::ty::print::{with_no_trimmed_paths, with_resolve_crate_name};
        with_resolve_crate_name!(with_no_trimmed_paths!(format!("{}", ty)))
    }
    /// unique id of a definition: crate name + verbose def path
    pub fn uid(&self, did: rustc_hir::def_id::DefId) -> String {
        format!(
            "{}{}",
            self.tcx.crate_name(did.krate),
            self.tcx.def_path(did).to_string_no_crate_verbose()
        )
    }
    pub fn span(&self, sp: rustc_span::Span) -> J {
        let sm = self.tcx.sess.source_map();
        // use the outermost call site for expanded code? No: keep the span as is, but flag it.
        let lo = sm.lookup_char_pos(sp.lo());
        let hi = sm.lookup_char_pos(sp.hi());
        let file = match &lo.file.name {
            rustc_span::FileName::Real(r) => match r.local_path() {
                Some(p) => p.to_string_lossy().into_owned(),
                None => format!("{:?}", r),
            },
            other => format!("{:?}", other),
        };
        J::Arr(vec![
            J::s(file),
            J::n(lo.line),
            J::n(lo.col.0 + 1),
            J::n(hi.line),
            J::n(hi.col.0 + 1),
            J::Bool(sp.from_expansion()),
        ])
    }
    /// name of the outermost macro in the expansion chain (if any)
    pub fn macro_name(&self, sp: rustc_span::Span) -> Option<String> {
        if !sp.from_expansion() {
            return None;
        }
        let mut names = vec![];
        for ed in sp.macro_backtrace() {
            names.push(format!("{}", ed.kind.descr()));
        }
        Some(names.join("<"))
    }
    /// span of the outermost call site (in user source) of an expanded span
    pub fn callsite(&self, sp: rustc_span::Span) -> rustc_span::Span {
        let mut s = sp;
        let mut n = 0;
        while s.from_expansion() && n < 64 {
            s = s.ctxt().outer_expn_data().call_site;
            n += 1;
        }
        s
    }
}

struct Cb;

impl rustc_driver::Callbacks for Cb {
    fn after_analysis<'tcx>(
        &mut self,
        _c: &rustc_interface::interface::Compiler,
        tcx: TyCtxt<'tcx>,
    ) -> Compilation {
        let krate = tcx.crate_name(rustc_hir::def_id::LOCAL_CRATE).to_string();
        let wanted = std::env::var("VERIF_CRATES")
            .unwrap_or_else(|_| "apollo_parser,apollo_compiler,apollo_smith".to_string());
        if !wanted.split(',').any(|w| w == krate) {
            return Compilation::Continue;
        }
        let dir = match std::env::var("VERIF_FACTS_DIR") {
            Ok(d) => d,
            Err(_) => return Compilation::Continue,
        };
        let cx = Ctx { tcx };
        let mut top: Vec<(&'static str, J)> = vec![];
        top.push(("crate", J::s(krate.clone())));
        top.push(("fns", mir::dump_all(&cx)));
        items::dump(&cx, &mut top);
        let want_hir = std::env::var("VERIF_NO_HIR").is_err();
        let mut s = String::with_capacity(64 << 20);
        J::Obj(top).write(&mut s);
        let path = format!("{}/{}.mir.json", dir, krate);
        let tmp = format!("{}.tmp{}", path, std::process::id());
        std::fs::write(&tmp, s.as_bytes()).expect("write facts");
        std::fs::rename(&tmp, &path).expect("rename facts");
        if want_hir {
            let h = hir::dump_all(&cx);
            let mut s = String::with_capacity(64 << 20);
            J::Obj(vec![("crate", J::s(krate.clone())), ("bodies", h)]).write(&mut s);
            let path = format!("{}/{}.hir.json", dir, krate);
            let tmp = format!("{}.tmp{}", path, std::process::id());
            std::fs::write(&tmp, s.as_bytes()).expect("write facts");
            std::fs::rename(&tmp, &path).expect("rename facts");
        }
        Compilation::Continue
    }
}

fn main() {
    let mut args: Vec<String> = std::env::args().collect();
    // RUSTC_WORKSPACE_WRAPPER: argv[1] is the path of the real rustc
    if args.len() > 1 && (args[1].ends_with("rustc") || args[1].contains("/rustc")) {
        args.remove(1);
    }
    let mut cb = Cb;
    rustc_driver::run_compiler(&args, &mut cb);
}
