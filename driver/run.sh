#!/bin/bash
# usage: run.sh <repo dir> <facts dir>
# Runs the fact extractor over the three library crates of the workspace at <repo dir>.
set -euo pipefail
REPO=${1:-/repo}; OUT=${2:?facts dir}
HERE=$(cd "$(dirname "$0")" && pwd)
DRV=$HERE/target/release/verif-driver
[ -x "$DRV" ] || { echo "driver not built: run setup" >&2; exit 2; }
mkdir -p "$OUT"
T=$(mktemp -d /tmp/verif-target.XXXXXX)
trap 'rm -rf "$T"' EXIT
cd "$REPO"
SYSROOT=$(rustc +nightly --print sysroot)
LD_LIBRARY_PATH=$SYSROOT/lib CARGO_NET_OFFLINE=true RUSTFLAGS="-Zmir-opt-level=0 -Awarnings" \
  RUSTC_WORKSPACE_WRAPPER=$DRV VERIF_FACTS_DIR=$OUT CARGO_TARGET_DIR=$T \
  cargo +nightly check --offline -q -p apollo-parser -p apollo-compiler -p apollo-smith
for c in apollo_parser apollo_compiler apollo_smith; do
  [ -s "$OUT/$c.mir.json" ] || { echo "missing facts for $c" >&2; exit 3; }
  [ -s "$OUT/$c.hir.json" ] || { echo "missing hir facts for $c" >&2; exit 3; }
done
